//go:build verif
// +build verif

package nutsdb

//@ func box.bump
//@   requires b != nil
//@   ensures b.n == old(b.n) + 1
//@   modifies b.n
//@   inline

//@ func GoodBump
//@   requires b != nil
//@   ensures b.n == old(b.n) + 1
//@   modifies b.n
//@   safety panics

//@ func BadLoopInlinedCall
//@   requires b != nil
//@   ensures b.n == old(b.n)
//@   modifies b.n
//@   loops 1
//@   loop 1: invariant b == old(b)

//@ func GoodLoopInlinedCall
//@   requires b != nil && k >= 0
//@   ensures b.n == old(b.n) + k
//@   modifies b.n
//@   loops 1
//@   loop 1: modifies b.n
//@   loop 1: invariant b == old(b) && k == old(k) && 0 <= i && i <= k && b.n == old(b.n) + i

//@ func BadOverflow
//@   ensures result == a + b
//@   safety overflow
//@ func GoodOverflow
//@   ensures result == a + b
//@   safety overflow

//@ func BadIndex
//@   safety panics
//@ func GoodIndex
//@   ensures 0 <= i && i < len(s) ==> result == s[i]
//@   safety panics

//@ func BadNilMap
//@   requires b != nil
//@   modifies b.m, entries(b.m)
//@   safety panics
//@ func GoodMap
//@   requires b != nil
//@   ensures has(b.m, "x") && b.m["x"] == 1
//@   modifies b.m, entries(b.m)
//@   safety panics

//@ func BadFrame
//@   requires b != nil
//@   modifies b.n
//@ func GoodFrame
//@   requires b != nil
//@   ensures b.n == 7 && b.next == old(b.next)
//@   modifies b.n

//@ func BadLoopNoInv
//@   requires k >= 0
//@   ensures result == 2 * k
//@ func GoodLoopInv
//@   requires k >= 0
//@   ensures result == 2 * k
//@   loops 1
//@   loop 1: invariant 0 <= i && i <= k && s == 2 * i && k == old(k)

//@ func BadAlias
//@   requires len(s) > 0
//@   ensures forall j int :: 0 <= j && j < len(s) ==> s[j] == old(s[j])
//@   modifies nothing
//@ func GoodAlias
//@   ensures forall j int :: 0 <= j && j < len(s) ==> s[j] == old(s[j])
//@   ensures len(result) == 1 && result[0] == 9
//@   modifies nothing
//@   safety panics

//@ func doer.Do (d) (r)
//@   modifies nothing
//@ func BadNilIface
//@   safety panics
//@ func GoodIface
//@   safety panics

//@ func needsPos
//@   requires x > 0
//@   ensures result == x
//@ func BadCallPre
//@   ensures result == x
//@ func GoodCallPre
//@   ensures x > 0 ==> result == x

//@ func BadOld
//@   requires b != nil
//@   ensures result == old(b.n) + 1
//@   modifies b.n
//@ func GoodOld
//@   requires b != nil
//@   ensures result == old(b.n) + 1 && b.n == result
//@   modifies b.n

//@ func BadVacuous
//@   requires x > 0 && x < 0
//@   ensures result == x + 1

//@ func BadErr
//@   ensures x < 0 ==> result == errNeg
//@ func GoodErr
//@   ensures (x < 0 ==> result == errNeg) && (x >= 0 ==> result == nil)

//@ func BadReturnSite
//@   ensures result == x
//@ func BadDiv
//@   safety panics
//@ func BadSliceBounds
//@   safety panics
//@ func GoodSliceBounds
//@   ensures 0 <= n && n <= len(s) ==> len(result) == n
//@   safety panics

//@ func BadMapRange
//@   ensures result == 0
//@   loops 1
//@   loop 1: invariant c >= 0
