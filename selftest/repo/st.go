// Package nutsdb (selftest): tiny functions with contracts whose verdict is known.
// Functions named Good* must verify completely; functions named Bad* must have at least one
// obligation that is NOT discharged. Run by `govc selftest`.
package nutsdb

import "errors"

type box struct {
	n    int
	next *box
	data []byte
	m    map[string]int
}

var errNeg = errors.New("negative")

func (b *box) bump() { b.n = b.n + 1 }

func GoodBump(b *box) { b.bump() }

// BadLoopInlinedCall: the loop body changes b.n through an inlined call; the contract claims it does not.
func BadLoopInlinedCall(b *box, k int) {
	for i := 0; i < k; i++ {
		b.bump()
	}
}

func GoodLoopInlinedCall(b *box, k int) {
	for i := 0; i < k; i++ {
		b.bump()
	}
}

func BadOverflow(a, b uint32) uint32 { return a + b }

func GoodOverflow(a, b uint32) uint64 { return uint64(a) + uint64(b) }

func BadIndex(s []int, i int) int { return s[i] }

func GoodIndex(s []int, i int) int {
	if i < 0 || i >= len(s) {
		return 0
	}
	return s[i]
}

func BadNilMap(b *box) { b.m["x"] = 1 }

func GoodMap(b *box) {
	if b.m == nil {
		b.m = make(map[string]int)
	}
	b.m["x"] = 1
}

// BadFrame writes a field that its modifies clause does not list.
func BadFrame(b *box) { b.n = 7; b.next = nil }

func GoodFrame(b *box) { b.n = 7 }

// BadLoopNoInv: without an invariant nothing is known about s after the loop.
func BadLoopNoInv(k int) int {
	s := 0
	for i := 0; i < k; i++ {
		s += 2
	}
	return s
}

func GoodLoopInv(k int) int {
	s := 0
	for i := 0; i < k; i++ {
		s += 2
	}
	return s
}

// BadAlias: appending within capacity and writing through the result changes the shared array.
func BadAlias(s []byte) []byte {
	t := s[:0]
	t = append(t, 9)
	return t
}

func GoodAlias(s []byte) []byte {
	t := make([]byte, 0, 1)
	t = append(t, 9)
	return t
}

type doer interface{ Do() int }

func BadNilIface(d doer) int { return d.Do() }

func GoodIface(d doer) int {
	if d == nil {
		return 0
	}
	return d.Do()
}

func needsPos(x int) int { return x }

func BadCallPre(x int) int { return needsPos(x) }

func GoodCallPre(x int) int {
	if x <= 0 {
		return 0
	}
	return needsPos(x)
}

func BadOld(b *box) int { b.n = b.n + 2; return b.n }

func GoodOld(b *box) int { b.n = b.n + 1; return b.n }

// BadVacuous has contradictory preconditions: the canary must flag it.
func BadVacuous(x int) int { return x }

func BadErr(x int) error {
	if x < 0 {
		return nil
	}
	return errNeg
}

func GoodErr(x int) error {
	if x < 0 {
		return errNeg
	}
	return nil
}

// BadReturnSite: only one of the two return statements satisfies the postcondition.
func BadReturnSite(x int) int {
	if x > 10 {
		return x
	}
	return x + 1
}

func BadDiv(a, b int) int { return a / b }

func BadSliceBounds(s []byte, n int) []byte { return s[:n] }

func GoodSliceBounds(s []byte, n int) []byte {
	if n < 0 || n > len(s) {
		return nil
	}
	return s[:n]
}

// BadMapRange claims more than the loop establishes.
func BadMapRange(m map[string]int) int {
	c := 0
	for range m {
		c++
	}
	return c
}
