module github.com/xujiajun/nutsdb

go 1.13
