#!/usr/bin/env python3
# Must-fail corpus for the scan contracts: applies one named change to a scratch copy of /repo (argv[1]).
# usage: mutants_scans.py <scratch-dir> <name>
import sys

root, name = sys.argv[1], sys.argv[2]


def edit(path, old, new):
    p = root + "/" + path
    s = open(p).read()
    assert s.count(old) == 1, (name, path, s.count(old))
    open(p, "w").write(s.replace(old, new))


if name == "rangescan-nil-close":  # the defect repaired by the fix: commit (C20)
    edit("tx_bptree.go",
         "\t\t\tfor _, r := range records {\n\t\t\t\tpath := tx.db.getDataPath(r.H.fileID)\n\t\t\t\tdf, err := NewDataFile(path, tx.db.opt.SegmentSize, tx.db.opt.RWMode)\n\t\t\t\tif err != nil {\n",
         "\t\t\tfor _, r := range records {\n\t\t\t\tpath := tx.db.getDataPath(r.H.fileID)\n\t\t\t\tdf, err := NewDataFile(path, tx.db.opt.SegmentSize, tx.db.opt.RWMode)\n\t\t\t\tif err != nil {\n\t\t\t\t\tdf.rwManager.Close()\n")
elif name == "prefixscan-wrong-slot":  # collects the neighbour's pointer (C01/C03/C20)
    edit("bptree.go",
         "\t\t\tif coff < offsetNum {\n\t\t\t\tcoff++\n\t\t\t\tcontinue\n\t\t\t}\n\n\t\t\tkeys = append(keys, n.Keys[i])\n\t\t\tpointers = append(pointers, n.pointers[i])",
         "\t\t\tif coff < offsetNum {\n\t\t\t\tcoff++\n\t\t\t\tcontinue\n\t\t\t}\n\n\t\t\tkeys = append(keys, n.Keys[i])\n\t\t\tpointers = append(pointers, n.pointers[i+1])")
elif name == "recordwrapper-off-by-one":  # reads one slot past numFound (C20)
    edit("bptree.go",
         "for i := 0; i < numFound; i++ {\n\t\trecords = append(records, pointers[i].(*Record))",
         "for i := 0; i <= numFound; i++ {\n\t\trecords = append(records, pointers[i].(*Record))")
elif name == "txprefixscan-skips-closed-check":  # finished transaction no longer refused (C12/C20)
    edit("tx_bptree.go",
         "func (tx *Tx) PrefixScan(bucket string, prefix []byte, offsetNum int, limitNum int) (es Entries, off int, err error) {\n\n\tif err := tx.checkTxIsClosed(); err != nil {\n\t\treturn nil, off, err\n\t}\n",
         "func (tx *Tx) PrefixScan(bucket string, prefix []byte, offsetNum int, limitNum int) (es Entries, off int, err error) {\n")
else:
    sys.exit("unknown mutant " + name)
