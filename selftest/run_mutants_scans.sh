#!/bin/sh
# Must-fail corpus for the scan contracts (Tx.RangeScan, Tx.PrefixScan, BPTree.PrefixScan, getRecordWrapper):
# every change must make at least one obligation fail. Works on scratch copies under /var/tmp, never on /repo.
V="$(cd "$(dirname "$0")/.." && pwd)"
export GOFLAGS=-mod=mod GOPROXY=off GOSUMDB=off GOTOOLCHAIN=local GOVC_VERIF="$V"
rc=0
for m in rangescan-nil-close prefixscan-wrong-slot recordwrapper-off-by-one txprefixscan-skips-closed-check; do
  S=$(mktemp -d /var/tmp/mut.XXXXXX)
  git -C /repo archive HEAD | tar -x -C "$S"; cp /repo/go.sum "$S"/ 2>/dev/null
  if python3 "$V/selftest/mutants_scans.py" "$S" "$m"; then
    n=$(GOVC_REPO="$S" "$V/bin/govc" verify -t 20 'nutsdb\.(Tx\.RangeScan|Tx\.PrefixScan|BPTree\.PrefixScan|getRecordWrapper)$' 2>&1 | grep -c '^  FAIL')
    if [ "$n" -gt 0 ]; then echo "$m: DETECTED ($n obligations fail)"; else echo "$m: MISSED"; rc=1; fi
  else
    echo "$m: DOES-NOT-APPLY"; rc=1
  fi
  rm -rf "$S"
done
exit $rc
