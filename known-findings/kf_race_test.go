package nutsdb

import (
	"io/ioutil"
	"os"
	"sync"
	"testing"
)

// Run with -race: Merge reads the indexes and writes db.isMerging without holding db.mu while a writer commits.
func TestKF_MergeRacesWithUpdate(t *testing.T) {
	dir, _ := ioutil.TempDir("", "govc-kf-race")
	defer os.RemoveAll(dir)
	opt := DefaultOptions
	opt.Dir = dir
	opt.SegmentSize = 256
	db, err := Open(opt)
	if err != nil {
		t.Fatal(err)
	}
	for i := 0; i < 12; i++ {
		k := []byte{'k', byte('0' + i%10), byte('a' + i/10)}
		if err := db.Update(func(tx *Tx) error { return tx.Put("b", k, []byte("0123456789012345678901234567890123456789"), Persistent) }); err != nil {
			t.Fatal(err)
		}
	}
	var wg sync.WaitGroup
	wg.Add(2)
	go func() { defer wg.Done(); _ = db.Merge() }()
	go func() {
		defer wg.Done()
		for i := 0; i < 20; i++ {
			_ = db.Update(func(tx *Tx) error { return tx.Put("b", []byte{'w', byte('0' + i%10)}, []byte("v"), Persistent) })
		}
	}()
	wg.Wait()
	db.Close()
}

// Run with -race: two read-only transactions in sparse mode both sort the shared db.BPTreeRootIdxes slice in place
// (SortFID in rangeScanOnDisk / prefixScanOnDisk) while holding only the read lock.
func TestKF_SparseReadersRaceOnRootIdxes(t *testing.T) {
	dir, _ := ioutil.TempDir("", "govc-kf-race")
	defer os.RemoveAll(dir)
	opt := DefaultOptions
	opt.Dir = dir
	opt.SegmentSize = 300
	opt.EntryIdxMode = HintBPTSparseIdxMode
	db, err := Open(opt)
	if err != nil {
		t.Fatal(err)
	}
	for i := 0; i < 16; i++ {
		k := []byte{'k', byte('0' + i/10), byte('0' + i%10)}
		if err := db.Update(func(tx *Tx) error { return tx.Put("b", k, []byte("0123456789"), Persistent) }); err != nil {
			t.Fatal(err)
		}
	}
	var wg sync.WaitGroup
	for g := 0; g < 2; g++ {
		wg.Add(1)
		go func() {
			defer wg.Done()
			for i := 0; i < 50; i++ {
				_ = db.View(func(tx *Tx) error { _, _ = tx.RangeScan("b", []byte("k00"), []byte("k15")); return nil })
			}
		}()
	}
	wg.Wait()
	db.Close()
}
