package nutsdb

import (
	"fmt"
	"io/ioutil"
	"os"
	"sync"
	"testing"
)

// Run with -race: Merge reads the indexes and writes db.isMerging without holding db.mu while a writer commits.
func TestKF_MergeRacesWithUpdate(t *testing.T) {
	dir, _ := ioutil.TempDir("", "govc-kf-race")
	defer os.RemoveAll(dir)
	opt := DefaultOptions
	opt.Dir = dir
	opt.SegmentSize = 256
	db, err := Open(opt)
	if err != nil {
		t.Fatal(err)
	}
	for i := 0; i < 12; i++ {
		k := []byte{'k', byte('0' + i%10), byte('a' + i/10)}
		if err := db.Update(func(tx *Tx) error { return tx.Put("b", k, []byte("0123456789012345678901234567890123456789"), Persistent) }); err != nil {
			t.Fatal(err)
		}
	}
	var wg sync.WaitGroup
	wg.Add(2)
	go func() { defer wg.Done(); _ = db.Merge() }()
	go func() {
		defer wg.Done()
		for i := 0; i < 20; i++ {
			_ = db.Update(func(tx *Tx) error { return tx.Put("b", []byte{'w', byte('0' + i%10)}, []byte("v"), Persistent) })
		}
	}()
	wg.Wait()
	db.Close()
}

// Run with -race: two read-only transactions in sparse mode both sort the shared db.BPTreeRootIdxes slice in place
// (SortFID in rangeScanOnDisk / prefixScanOnDisk) while holding only the read lock.
func TestKF_SparseReadersRaceOnRootIdxes(t *testing.T) {
	dir, _ := ioutil.TempDir("", "govc-kf-race")
	defer os.RemoveAll(dir)
	opt := DefaultOptions
	opt.Dir = dir
	opt.SegmentSize = 300
	opt.EntryIdxMode = HintBPTSparseIdxMode
	db, err := Open(opt)
	if err != nil {
		t.Fatal(err)
	}
	for i := 0; i < 16; i++ {
		k := []byte{'k', byte('0' + i/10), byte('0' + i%10)}
		if err := db.Update(func(tx *Tx) error { return tx.Put("b", k, []byte("0123456789"), Persistent) }); err != nil {
			t.Fatal(err)
		}
	}
	var wg sync.WaitGroup
	for g := 0; g < 2; g++ {
		wg.Add(1)
		go func() {
			defer wg.Done()
			for i := 0; i < 50; i++ {
				_ = db.View(func(tx *Tx) error { _, _ = tx.RangeScan("b", []byte("k00"), []byte("k15")); return nil })
			}
		}()
	}
	wg.Wait()
	db.Close()
}

// fixed: two databases in one process, sparse index mode - every segment rotation runs BPTree.WriteNodes, which
// walked the tree through the package-level variable `queue`, shared by all databases and protected by no lock
func TestKF_TwoSparseDBsShareTheNodeQueue(t *testing.T) {
	var wg sync.WaitGroup
	errs := make(chan string, 100)
	for d := 0; d < 2; d++ {
		wg.Add(1)
		go func(d int) {
			defer wg.Done()
			dir, _ := ioutil.TempDir("", "kf")
			defer os.RemoveAll(dir)
			opt := DefaultOptions
			opt.Dir = dir
			opt.SegmentSize = 512
			opt.EntryIdxMode = HintBPTSparseIdxMode
			db, err := Open(opt)
			if err != nil {
				errs <- err.Error()
				return
			}
			defer db.Close()
			for i := 0; i < 300; i++ {
				k := fmt.Sprintf("key%04d", i)
				if err := db.Update(func(tx *Tx) error { return tx.Put("bk", []byte(k), []byte("value-"+k), Persistent) }); err != nil {
					errs <- fmt.Sprintf("db %d put %s: %v", d, k, err)
					return
				}
			}
			_ = db.View(func(tx *Tx) error {
				for i := 0; i < 300; i++ {
					k := fmt.Sprintf("key%04d", i)
					e, err := tx.Get("bk", []byte(k))
					if err != nil || string(e.Value) != "value-"+k {
						errs <- fmt.Sprintf("REPRODUCED: db %d: Get(%s) after concurrent commits on another database: %v", d, k, err)
						return nil
					}
				}
				return nil
			})
		}(d)
	}
	wg.Wait()
	close(errs)
	for e := range errs {
		t.Error(e)
	}
}
