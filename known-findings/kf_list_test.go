package list

import "testing"

func TestKF_LRangeNegativeStart(t *testing.T) {
	l := New()
	l.RPush("k", []byte("a"), []byte("b"))
	defer func() {
		if r := recover(); r != nil {
			t.Errorf("REPRODUCED: LRange(k,-1,0) panics: %v", r)
		}
	}()
	l.LRange("k", -1, 0)
}
