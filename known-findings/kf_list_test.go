package list

import "testing"

func TestKF_LRangeNegativeStart(t *testing.T) {
	l := New()
	l.RPush("k", []byte("a"), []byte("b"))
	defer func() {
		if r := recover(); r != nil {
			t.Errorf("REPRODUCED: LRange(k,-1,0) panics: %v", r)
		}
	}()
	l.LRange("k", -1, 0)
}

func TestKF_LRemMinInt(t *testing.T) {
	l := New()
	l.RPush("k", []byte("a"), []byte("b"))
	defer func() {
		if r := recover(); r != nil {
			t.Errorf("REPRODUCED: LRem(k, MinInt64, a) panics: %v", r)
		}
	}()
	l.LRem("k", -9223372036854775808, []byte("a"))
}
