package nutsdb

// Hand-minimised reproductions of the genuine defects listed in /verif/known-findings.json.
// Each test FAILS (prints REPRODUCED) while the defect is present. Run through go test -overlay.

import (
	"io/ioutil"
	"math"
	"os"
	"testing"
	"time"
)

func kfOpen(t *testing.T, mode EntryIdxMode, seg int64) (*DB, string) {
	dir, err := ioutil.TempDir("", "govc-kf")
	if err != nil {
		t.Fatal(err)
	}
	opt := DefaultOptions
	opt.Dir = dir
	opt.SegmentSize = seg
	opt.EntryIdxMode = mode
	db, err := Open(opt)
	if err != nil {
		t.Fatal(err)
	}
	return db, dir
}

func TestKF_IsExpiredOverflow(t *testing.T) {
	if IsExpired(10, math.MaxUint64) {
		t.Errorf("REPRODUCED: IsExpired(10, MaxUint64) = true although now < timestamp + ttl")
	}
}

func TestKF_FailedCommitLeavesIndex(t *testing.T) {
	db, dir := kfOpen(t, HintKeyValAndRAMIdxMode, 4096)
	defer os.RemoveAll(dir)
	if err := db.Update(func(tx *Tx) error { return tx.Put("b", []byte("k"), []byte("old"), 0) }); err != nil {
		t.Fatal(err)
	}
	err := db.Update(func(tx *Tx) error {
		if err := tx.Put("b", []byte("k"), []byte("uncommitted"), 0); err != nil {
			return err
		}
		return tx.Put("b", []byte("big"), make([]byte, 8192), 0)
	})
	if err == nil {
		t.Fatal("oversized commit unexpectedly succeeded")
	}
	_ = db.View(func(tx *Tx) error {
		e, err := tx.Get("b", []byte("k"))
		if err != nil || string(e.Value) != "old" {
			t.Errorf("REPRODUCED: after a failed commit Get(k) = (%v, %v), want the committed value \"old\"", e, err)
		}
		return nil
	})
}

func TestKF_SparseRotateEmptyTree(t *testing.T) {
	db, dir := kfOpen(t, HintBPTSparseIdxMode, 256)
	defer os.RemoveAll(dir)
	defer func() {
		if r := recover(); r != nil {
			t.Errorf("REPRODUCED: rotation of a segment without key/value records panics: %v", r)
		}
	}()
	for i := 0; i < 8; i++ {
		_ = db.Update(func(tx *Tx) error { return tx.RPush("l", []byte("k"), make([]byte, 60)) })
	}
}

func TestKF_MMapShortWrite(t *testing.T) {
	dir, _ := ioutil.TempDir("", "govc-kf")
	defer os.RemoveAll(dir)
	m, err := NewMMapRWManager(dir+"/f", 100)
	if err != nil {
		t.Fatal(err)
	}
	defer m.Close()
	n, err := m.WriteAt(make([]byte, 50), 80)
	if err == nil && n != 50 {
		t.Errorf("REPRODUCED: MMapRWManager.WriteAt wrote %d of 50 bytes and returned a nil error", n)
	}
}

func TestKF_SMoveBypassesLog(t *testing.T) {
	db, dir := kfOpen(t, HintKeyValAndRAMIdxMode, 4096)
	defer os.RemoveAll(dir)
	if err := db.Update(func(tx *Tx) error {
		if err := tx.SAdd("b", []byte("s1"), []byte("x")); err != nil {
			return err
		}
		return tx.SAdd("b", []byte("s2"), []byte("y"))
	}); err != nil {
		t.Fatal(err)
	}
	// a READ-ONLY transaction moves the member
	_ = db.View(func(tx *Tx) error {
		_, err := tx.SMoveByOneBucket("b", []byte("s1"), []byte("s2"), []byte("x"))
		return err
	})
	_ = db.View(func(tx *Tx) error {
		if ok, _ := tx.SIsMember("b", []byte("s1"), []byte("x")); !ok {
			t.Errorf("REPRODUCED: SMoveByOneBucket inside a read-only transaction changed the set index (x left s1)")
		}
		return nil
	})
}

func TestKF_GetKeyOnlyMissingDir(t *testing.T) {
	db, dir := kfOpen(t, HintKeyAndRAMIdxMode, 4096)
	if err := db.Update(func(tx *Tx) error { return tx.Put("b", []byte("k"), []byte("v"), 0) }); err != nil {
		t.Fatal(err)
	}
	os.RemoveAll(dir) // the segment can no longer be opened
	defer func() {
		if r := recover(); r != nil {
			t.Errorf("REPRODUCED: Get in key-only mode panics when the segment cannot be opened: %v", r)
		}
	}()
	tx, _ := db.Begin(false)
	_, _ = tx.Get("b", []byte("k"))
	_ = tx.Rollback()
}

func TestKF_ScanShowsUncommitted(t *testing.T) {
	db, dir := kfOpen(t, HintKeyValAndRAMIdxMode, 4096)
	defer os.RemoveAll(dir)
	_ = db.Update(func(tx *Tx) error { return tx.Put("b", []byte("k"), []byte("old"), 0) })
	_ = db.Update(func(tx *Tx) error {
		_ = tx.Put("b", []byte("k"), []byte("uncommitted"), 0)
		return tx.Put("b", []byte("big"), make([]byte, 8192), 0)
	})
	_ = db.View(func(tx *Tx) error {
		es, _ := tx.GetAll("b")
		for _, e := range es {
			if string(e.Value) == "uncommitted" {
				t.Errorf("REPRODUCED: GetAll returns the value of a transaction whose Commit failed")
			}
		}
		return nil
	})
}

func TestKF_TombstoneConsumesLimit(t *testing.T) {
	db, dir := kfOpen(t, HintKeyValAndRAMIdxMode, 4096)
	defer os.RemoveAll(dir)
	_ = db.Update(func(tx *Tx) error {
		for _, k := range []string{"ka", "kb", "kc"} {
			if err := tx.Put("b", []byte(k), []byte("v"), 0); err != nil {
				return err
			}
		}
		return nil
	})
	_ = db.Update(func(tx *Tx) error { return tx.Delete("b", []byte("ka")) })
	_ = db.View(func(tx *Tx) error {
		es, _, err := tx.PrefixScan("b", []byte("k"), 0, 1)
		if err != nil || len(es) != 1 || string(es[0].Key) != "kb" {
			t.Errorf("REPRODUCED: PrefixScan(k,0,1) = (%d entries, %v) although kb and kc are live: the deleted ka consumed the limit", len(es), err)
		}
		return nil
	})
}

func TestKF_SparseRangeScanMissingDir(t *testing.T) {
	db, dir := kfOpen(t, HintBPTSparseIdxMode, 4096)
	if err := db.Update(func(tx *Tx) error { return tx.Put("b", []byte("k"), []byte("v"), 0) }); err != nil {
		t.Fatal(err)
	}
	os.RemoveAll(dir) // the segment can no longer be opened
	defer func() {
		if r := recover(); r != nil {
			t.Errorf("REPRODUCED: RangeScan in sparse mode panics when the segment cannot be opened: %v", r)
		}
	}()
	tx, _ := db.Begin(false)
	_, _ = tx.RangeScan("b", []byte("a"), []byte("z"))
	_ = tx.Rollback()
}

func TestKF_TombstoneConsumesLimitSearch(t *testing.T) {
	db, dir := kfOpen(t, HintKeyValAndRAMIdxMode, 4096)
	defer os.RemoveAll(dir)
	_ = db.Update(func(tx *Tx) error {
		for _, k := range []string{"ka", "kb", "kc"} {
			if err := tx.Put("b", []byte(k), []byte("v"), 0); err != nil {
				return err
			}
		}
		return nil
	})
	_ = db.Update(func(tx *Tx) error { return tx.Delete("b", []byte("ka")) })
	_ = db.View(func(tx *Tx) error {
		es, _, err := tx.PrefixSearchScan("b", []byte("k"), "[a-c]", 0, 1)
		if err != nil || len(es) != 1 || string(es[0].Key) != "kb" {
			t.Errorf("REPRODUCED: PrefixSearchScan(k,[a-c],0,1) = (%d entries, %v) although kb and kc are live and match: the deleted ka consumed the limit", len(es), err)
		}
		return nil
	})
}

func TestKF_TombstoneConsumesOffset(t *testing.T) {
	db, dir := kfOpen(t, HintKeyValAndRAMIdxMode, 4096)
	defer os.RemoveAll(dir)
	_ = db.Update(func(tx *Tx) error {
		for _, k := range []string{"ka", "kb", "kc"} {
			if err := tx.Put("b", []byte(k), []byte("v"), 0); err != nil {
				return err
			}
		}
		return nil
	})
	_ = db.Update(func(tx *Tx) error { return tx.Delete("b", []byte("ka")) })
	_ = db.View(func(tx *Tx) error {
		es, _, err := tx.PrefixScan("b", []byte("k"), 1, 1)
		if err != nil || len(es) != 1 || string(es[0].Key) != "kc" {
			got := ""
			if len(es) > 0 {
				got = string(es[0].Key)
			}
			t.Errorf("REPRODUCED: PrefixScan(k,1,1) = (%q, %v), the live keys are kb, kc so skipping one must give kc: the deleted ka consumed the offset", got, err)
		}
		return nil
	})
}

func kfReopen(t *testing.T, db *DB, dir string, mode EntryIdxMode, seg int64) (*DB, error) {
	if err := db.Close(); err != nil {
		t.Fatal(err)
	}
	opt := DefaultOptions
	opt.Dir = dir
	opt.SegmentSize = seg
	opt.EntryIdxMode = mode
	return Open(opt)
}

func TestKF_SRemMissingKeyBreaksOpen(t *testing.T) {
	db, dir := kfOpen(t, HintKeyValAndRAMIdxMode, 4096)
	defer os.RemoveAll(dir)
	if err := db.Update(func(tx *Tx) error { return tx.SAdd("b", []byte("s"), []byte("x")) }); err != nil {
		t.Fatal(err)
	}
	if err := db.Update(func(tx *Tx) error { return tx.SRem("b", []byte("missing"), []byte("x")) }); err != nil {
		t.Skip("SRem of a missing key is refused:", err)
	}
	db2, err := kfReopen(t, db, dir, HintKeyValAndRAMIdxMode, 4096)
	if err != nil {
		t.Errorf("REPRODUCED: SRem(b, missing, x) committed successfully, then Open fails: %v", err)
		return
	}
	db2.Close()
}

func TestKF_ListNoOpBreaksOpen(t *testing.T) {
	db, dir := kfOpen(t, HintKeyValAndRAMIdxMode, 4096)
	defer os.RemoveAll(dir)
	if err := db.Update(func(tx *Tx) error { return tx.RPush("b", []byte("l"), []byte("a")) }); err != nil {
		t.Fatal(err)
	}
	// two pops in one transaction: both are validated against the committed list (one element), the second is a no-op at commit time
	if err := db.Update(func(tx *Tx) error {
		if _, err := tx.LPop("b", []byte("l")); err != nil {
			return err
		}
		_, err := tx.LPop("b", []byte("l"))
		return err
	}); err != nil {
		t.Skip("second LPop refused:", err)
	}
	db2, err := kfReopen(t, db, dir, HintKeyValAndRAMIdxMode, 4096)
	if err != nil {
		t.Errorf("REPRODUCED: two LPop of a one-element list committed successfully, then Open fails: %v", err)
		return
	}
	db2.Close()
}

func TestKF_LRemValueWithSeparator(t *testing.T) {
	db, dir := kfOpen(t, HintKeyValAndRAMIdxMode, 4096)
	defer os.RemoveAll(dir)
	if err := db.Update(func(tx *Tx) error { return tx.RPush("b", []byte("l"), []byte("a|b"), []byte("c")) }); err != nil {
		t.Fatal(err)
	}
	if err := db.Update(func(tx *Tx) error { _, err := tx.LRem("b", []byte("l"), 1, []byte("a|b")); return err }); err != nil {
		t.Fatal(err)
	}
	_ = db.View(func(tx *Tx) error {
		n, err := tx.LSize("b", []byte("l"))
		if err != nil || n != 1 {
			t.Errorf("REPRODUCED: LRem(l, 1, \"a|b\") committed but the list still has %d elements (%v): the applier split the value at its own '|'", n, err)
		}
		return nil
	})
}

func TestKF_KeyOnlyModeOpenWithSortedSetPanics(t *testing.T) {
	db, dir := kfOpen(t, HintKeyValAndRAMIdxMode, 4096)
	defer os.RemoveAll(dir)
	if err := db.Update(func(tx *Tx) error { return tx.ZAdd("b", []byte("k"), 1, []byte("v")) }); err != nil {
		t.Fatal(err)
	}
	defer func() {
		if r := recover(); r != nil {
			t.Errorf("REPRODUCED: Open in HintKeyAndRAMIdxMode on a directory holding a sorted-set record panics instead of returning ErrEntryIdxModeOpt: %v", r)
		}
	}()
	db2, err := kfReopen(t, db, dir, HintKeyAndRAMIdxMode, 4096)
	if err == nil {
		db2.Close()
	}
}

func TestKF_DoubleLPopReturnsSameElement(t *testing.T) {
	db, dir := kfOpen(t, HintKeyValAndRAMIdxMode, 4096)
	defer os.RemoveAll(dir)
	if err := db.Update(func(tx *Tx) error { return tx.RPush("b", []byte("l"), []byte("a"), []byte("b")) }); err != nil {
		t.Fatal(err)
	}
	_ = db.Update(func(tx *Tx) error {
		x, err1 := tx.LPop("b", []byte("l"))
		y, err2 := tx.LPop("b", []byte("l"))
		if err1 == nil && err2 == nil && string(x) == string(y) {
			t.Errorf("REPRODUCED: two LPop in one transaction on [a b] returned %q and %q: the second pop does not see the first", x, y)
		}
		return nil
	})
}

func TestKF_PutThenGetInOneTx(t *testing.T) {
	db, dir := kfOpen(t, HintKeyValAndRAMIdxMode, 4096)
	defer os.RemoveAll(dir)
	_ = db.Update(func(tx *Tx) error {
		if err := tx.Put("b", []byte("k"), []byte("v"), Persistent); err != nil {
			t.Fatal(err)
		}
		if _, err := tx.Get("b", []byte("k")); err != nil {
			t.Errorf("REPRODUCED: Get of a key put earlier in the same transaction fails: %v", err)
		}
		return nil
	})
}

func TestKF_DoubleZPopMaxReturnsSameMember(t *testing.T) {
	db, dir := kfOpen(t, HintKeyValAndRAMIdxMode, 4096)
	defer os.RemoveAll(dir)
	if err := db.Update(func(tx *Tx) error {
		if err := tx.ZAdd("b", []byte("x"), 1, nil); err != nil {
			return err
		}
		return tx.ZAdd("b", []byte("y"), 2, nil)
	}); err != nil {
		t.Fatal(err)
	}
	_ = db.Update(func(tx *Tx) error {
		a, err1 := tx.ZPopMax("b")
		b, err2 := tx.ZPopMax("b")
		if err1 == nil && err2 == nil && a == b {
			t.Errorf("REPRODUCED: two ZPopMax in one transaction returned the same member %q twice", a.Key())
		}
		return nil
	})
}

func TestKF_SparseRangeInsideSegment(t *testing.T) {
	db, dir := kfOpen(t, HintBPTSparseIdxMode, 300)
	defer os.RemoveAll(dir)
	// eight 60-byte records per key fill several 300-byte segments; the first segments get sealed
	for i := 0; i < 12; i++ {
		k := []byte{'k', byte('0' + i/10), byte('0' + i%10)}
		if err := db.Update(func(tx *Tx) error { return tx.Put("b", k, []byte("0123456789"), Persistent) }); err != nil {
			t.Fatal(err)
		}
	}
	_ = db.View(func(tx *Tx) error {
		// every key individually readable
		for _, k := range []string{"k01", "k02"} {
			if _, err := tx.Get("b", []byte(k)); err != nil {
				t.Skipf("Get(%s) fails already: %v", k, err)
			}
		}
		es, err := tx.RangeScan("b", []byte("k01"), []byte("k02"))
		if err != nil || len(es) != 2 {
			t.Errorf("REPRODUCED: RangeScan(k01,k02) = (%d entries, %v) although k01 and k02 are readable: a query range strictly inside the key range of a sealed segment is skipped", len(es), err)
		}
		return nil
	})
}

func kfSparseMissingDir(t *testing.T, what string, f func(tx *Tx)) {
	db, dir := kfOpen(t, HintBPTSparseIdxMode, 4096)
	if err := db.Update(func(tx *Tx) error { return tx.Put("b", []byte("k"), []byte("v"), 0) }); err != nil {
		t.Fatal(err)
	}
	os.RemoveAll(dir) // the segment can no longer be opened
	defer func() {
		if r := recover(); r != nil {
			t.Errorf("REPRODUCED: %s in sparse mode panics when the segment cannot be opened: %v", what, r)
		}
	}()
	tx, _ := db.Begin(false)
	f(tx)
	_ = tx.Rollback()
}

func TestKF_SparseGetMissingDir(t *testing.T) {
	kfSparseMissingDir(t, "Get", func(tx *Tx) { _, _ = tx.Get("b", []byte("k")) })
}

func TestKF_SparsePrefixScanMissingDir(t *testing.T) {
	kfSparseMissingDir(t, "PrefixScan", func(tx *Tx) { _, _, _ = tx.PrefixScan("b", []byte("k"), 0, 10) })
}

func TestKF_SparsePrefixSearchScanMissingDir(t *testing.T) {
	kfSparseMissingDir(t, "PrefixSearchScan", func(tx *Tx) { _, _, _ = tx.PrefixSearchScan("b", []byte("k"), ".*", 0, 10) })
}

func TestKF_SparseBucketKeyCollision(t *testing.T) {
	db, dir := kfOpen(t, HintBPTSparseIdxMode, 4096)
	defer os.RemoveAll(dir)
	if err := db.Update(func(tx *Tx) error { return tx.Put("a", []byte("bc"), []byte("value-of-a/bc"), Persistent) }); err != nil {
		t.Fatal(err)
	}
	_ = db.View(func(tx *Tx) error {
		e, err := tx.Get("ab", []byte("c"))
		if err == nil && e != nil {
			t.Errorf("REPRODUCED: Get(bucket ab, key c) returns %q, the value stored under bucket a, key bc: the composite key bucket++key is not injective", e.Value)
		}
		return nil
	})
}

func TestKF_SparsePrefixScanNoLimitSkipsSealedSegments(t *testing.T) {
	db, dir := kfOpen(t, HintBPTSparseIdxMode, 300)
	defer os.RemoveAll(dir)
	for i := 0; i < 12; i++ {
		k := []byte{'k', byte('0' + i/10), byte('0' + i%10)}
		if err := db.Update(func(tx *Tx) error { return tx.Put("b", k, []byte("0123456789"), Persistent) }); err != nil {
			t.Fatal(err)
		}
	}
	_ = db.View(func(tx *Tx) error {
		limited, _, err1 := tx.PrefixScan("b", []byte("k"), 0, 100)
		all, _, err2 := tx.PrefixScan("b", []byte("k"), 0, ScanNoLimit)
		if err1 != nil {
			t.Skipf("PrefixScan with a limit fails already: %v", err1)
		}
		if err2 != nil || len(all) != len(limited) {
			t.Errorf("REPRODUCED: PrefixScan(k, 0, ScanNoLimit) returns %d entries (%v), PrefixScan(k, 0, 100) returns %d: without a limit the sealed segments are not scanned", len(all), err2, len(limited))
		}
		return nil
	})
}

func TestKF_MergeAfterClosePanics(t *testing.T) {
	db, dir := kfOpen(t, HintKeyValAndRAMIdxMode, 256)
	defer os.RemoveAll(dir)
	for i := 0; i < 8; i++ {
		k := []byte{'k', byte('0' + i)}
		if err := db.Update(func(tx *Tx) error { return tx.Put("b", k, []byte("0123456789012345678901234567890123456789"), Persistent) }); err != nil {
			t.Fatal(err)
		}
	}
	db.Close()
	defer func() {
		if r := recover(); r != nil {
			t.Errorf("REPRODUCED: Merge on a closed database panics: %v", r)
		}
	}()
	_ = db.Merge()
}

func TestKF_MergeResurrectsFailedTransaction(t *testing.T) {
	db, dir := kfOpen(t, HintKeyValAndRAMIdxMode, 256)
	defer os.RemoveAll(dir)
	put := func(k, v string) error {
		return db.Update(func(tx *Tx) error { return tx.Put("b", []byte(k), []byte(v), Persistent) })
	}
	if err := put("k", "GOOD-0123456789012345678901234567890123456789"); err != nil {
		t.Fatal(err)
	}
	// a transaction that writes k and then fails on an oversized second entry: its record of k stays in the log
	err := db.Update(func(tx *Tx) error {
		if err := tx.Put("b", []byte("k"), []byte("BAD--0123456789012345678901234567890123456789"), Persistent); err != nil {
			return err
		}
		return tx.Put("b", []byte("big"), make([]byte, 400), Persistent)
	})
	if err == nil {
		t.Skip("the oversized transaction did not fail")
	}
	// restore the index by reopening (the failed commit left it pointing at the uncommitted record: known finding C12)
	db2, err := kfReopen(t, db, dir, HintKeyValAndRAMIdxMode, 256)
	if err != nil {
		t.Fatal(err)
	}
	get := func(d *DB) string {
		v := ""
		_ = d.View(func(tx *Tx) error {
			if e, err := tx.Get("b", []byte("k")); err == nil {
				v = string(e.Value[:4])
			}
			return nil
		})
		return v
	}
	if get(db2) != "GOOD" {
		t.Skipf("after reopen k = %q", get(db2))
	}
	for i := 0; i < 6; i++ { // more segments so that Merge has work to do
		if err := db2.Update(func(tx *Tx) error {
			return tx.Put("b", []byte{'f', byte('0' + i)}, []byte("0123456789012345678901234567890123456789"), Persistent)
		}); err != nil {
			t.Fatal(err)
		}
	}
	if err := db2.Merge(); err != nil {
		t.Skipf("Merge failed: %v", err)
	}
	if v := get(db2); v != "GOOD" {
		t.Errorf("REPRODUCED: after Merge, Get(k) = %q: the record of the failed transaction was rewritten as committed", v)
	}
	db2.Close()
}

func TestKF_MergeLeaksWriteLockWhenNewSegmentCannotBeCreated(t *testing.T) {
	db, dir := kfOpen(t, HintKeyValAndRAMIdxMode, 256)
	defer os.RemoveAll(dir)
	for i := 0; i < 8; i++ {
		k := []byte{'k', byte('0' + i)}
		if err := db.Update(func(tx *Tx) error { return tx.Put("b", k, []byte("0123456789012345678901234567890123456789"), Persistent) }); err != nil {
			t.Fatal(err)
		}
	}
	// the segment Merge wants to create next exists as a directory: NewDataFile fails inside reWriteData
	if err := os.Mkdir(db.getDataPath(db.MaxFileID+1), 0755); err != nil {
		t.Fatal(err)
	}
	if err := db.Merge(); err == nil {
		t.Skip("Merge succeeded although the next segment cannot be created")
	}
	done := make(chan struct{})
	go func() {
		_ = db.View(func(tx *Tx) error { return nil })
		close(done)
	}()
	select {
	case <-done:
	case <-time.After(2 * time.Second):
		t.Errorf("REPRODUCED: after a Merge that failed to create its output segment, View blocks for ever: reWriteData returned with the write lock still held")
	}
}

func TestKF_MergePanicsOnSetRecordOfFailedTransaction(t *testing.T) {
	db, dir := kfOpen(t, HintKeyValAndRAMIdxMode, 256)
	defer os.RemoveAll(dir)
	for i := 0; i < 6; i++ {
		k := []byte{'k', byte('0' + i)}
		if err := db.Update(func(tx *Tx) error { return tx.Put("b", k, []byte("0123456789012345678901234567890123456789"), Persistent) }); err != nil {
			t.Fatal(err)
		}
	}
	// a failed transaction leaves a set record of a bucket that never gets an index
	err := db.Update(func(tx *Tx) error {
		if err := tx.SAdd("newset", []byte("s"), []byte("x")); err != nil {
			return err
		}
		return tx.Put("b", []byte("big"), make([]byte, 400), Persistent)
	})
	if err == nil {
		t.Skip("the oversized transaction did not fail")
	}
	defer func() {
		if r := recover(); r != nil {
			t.Errorf("REPRODUCED: Merge panics on the set record of a failed transaction whose bucket has no index: %v", r)
		}
	}()
	_ = db.Merge()
}

func TestKF_MergeLeavesIsMergingSet(t *testing.T) {
	db, dir := kfOpen(t, HintKeyValAndRAMIdxMode, 256)
	defer os.RemoveAll(dir)
	for i := 0; i < 8; i++ {
		k := []byte{'k', byte('0' + i)}
		if err := db.Update(func(tx *Tx) error { return tx.Put("b", k, []byte("0123456789012345678901234567890123456789"), Persistent) }); err != nil {
			t.Fatal(err)
		}
	}
	if err := db.Merge(); err != nil {
		t.Skipf("Merge failed: %v", err)
	}
	before := db.BPTreeIdx["b"].ValidKeyCount
	if err := db.Update(func(tx *Tx) error { return tx.Delete("b", []byte("k0")) }); err != nil {
		t.Fatal(err)
	}
	if db.isMerging || db.BPTreeIdx["b"].ValidKeyCount != before-1 {
		t.Errorf("REPRODUCED: after a successful Merge isMerging=%v; deleting a key changes ValidKeyCount from %d to %d (key counting stays disabled)", db.isMerging, before, db.BPTreeIdx["b"].ValidKeyCount)
	}
}

// fixed by afc4b9a: a record with an empty value that ends exactly at the end of its segment could not be read
// through the mmap manager (zero-length read at offset == len(mapping) reported as out of bounds): Open failed.
func TestKF_MMapEmptyValueAtSegmentEnd(t *testing.T) {
	dir, _ := ioutil.TempDir("", "kf")
	defer os.RemoveAll(dir)
	opt := DefaultOptions
	opt.Dir = dir
	opt.SegmentSize = 2 * (DataEntryHeaderSize + 2 + 2) // two records: header + bucket "bk" + key "k1" + empty value
	db, err := Open(opt)
	if err != nil {
		t.Fatal(err)
	}
	for _, k := range []string{"k1", "k2", "k3"} {
		if err := db.Update(func(tx *Tx) error { return tx.Put("bk", []byte(k), []byte(""), Persistent) }); err != nil {
			t.Fatal(err)
		}
	}
	if err := db.Close(); err != nil {
		t.Fatal(err)
	}
	db, err = Open(opt) // StartFileLoadingMode defaults to MMap
	if err != nil {
		t.Fatalf("REPRODUCED: reopen of a directory written by the library failed: %v", err)
	}
	defer db.Close()
	_ = db.View(func(tx *Tx) error {
		for _, k := range []string{"k1", "k2", "k3"} {
			if e, err := tx.Get("bk", []byte(k)); err != nil || len(e.Value) != 0 {
				t.Errorf("REPRODUCED: Get(%s) after reopen: %v", k, err)
			}
		}
		return nil
	})
}

// known finding (C06): the empty member can be added and popped but never removed
func TestKF_SetEmptyMemberNeverRemoved(t *testing.T) {
	dir, _ := ioutil.TempDir("", "kf")
	defer os.RemoveAll(dir)
	opt := DefaultOptions
	opt.Dir = dir
	db, err := Open(opt)
	if err != nil {
		t.Fatal(err)
	}
	defer db.Close()
	if err := db.Update(func(tx *Tx) error { return tx.SAdd("b", []byte("k"), []byte(""), []byte("x")) }); err != nil {
		t.Fatal(err)
	}
	if err := db.Update(func(tx *Tx) error { return tx.SRem("b", []byte("k"), []byte("")) }); err != nil {
		t.Fatalf("SRem of the empty member: %v", err)
	}
	_ = db.View(func(tx *Tx) error {
		if is, err := tx.SIsMember("b", []byte("k"), []byte("")); err == nil && is {
			t.Errorf("REPRODUCED: SRem(b,k,\"\") returned nil and committed, but \"\" is still a member")
		}
		return nil
	})
}

// fixed by c0e8958: with RWMode MMap a database whose active segment was exactly full could not be reopened
func TestKF_MMapExactlyFullActiveSegment(t *testing.T) {
	for _, rw := range []RWMode{FileIO, MMap} {
		dir, _ := ioutil.TempDir("", "kf")
		defer os.RemoveAll(dir)
		opt := DefaultOptions
		opt.Dir = dir
		opt.RWMode = rw
		opt.SegmentSize = 2 * (DataEntryHeaderSize + 2 + 2 + 4)
		db, err := Open(opt)
		if err != nil {
			t.Fatal(err)
		}
		for _, k := range []string{"k1", "k2"} {
			if err := db.Update(func(tx *Tx) error { return tx.Put("bk", []byte(k), []byte("vvvv"), Persistent) }); err != nil {
				t.Fatal(err)
			}
		}
		db.Close()
		db, err = Open(opt)
		if err != nil {
			t.Errorf("REPRODUCED: RWMode %v: reopen with an exactly full active segment: %v", rw, err)
			continue
		}
		db.Close()
	}
}

// fixed by 7f8bec8: Options.RWMode outside {FileIO, MMap} left the active file without a manager; the first Commit panicked
func TestKF_InvalidRWModePanicsInCommit(t *testing.T) {
	dir, _ := ioutil.TempDir("", "kf")
	defer os.RemoveAll(dir)
	opt := DefaultOptions
	opt.Dir = dir
	opt.RWMode = RWMode(7)
	defer func() {
		if r := recover(); r != nil {
			t.Errorf("REPRODUCED: panic with an invalid RWMode option: %v", r)
		}
	}()
	db, err := Open(opt)
	if err != nil {
		return // refused: the repaired behaviour
	}
	_ = db.Update(func(tx *Tx) error { return tx.Put("b", []byte("k"), []byte("v"), Persistent) })
	db.Close()
}

// fixed: in sparse index mode GetAll of a bucket that was never written created an empty meta file; the next Open failed
func TestKF_SparseGetAllOfUnknownBucketBreaksOpen(t *testing.T) {
	dir, _ := ioutil.TempDir("", "kf")
	defer os.RemoveAll(dir)
	opt := DefaultOptions
	opt.Dir = dir
	opt.EntryIdxMode = HintBPTSparseIdxMode
	db, err := Open(opt)
	if err != nil {
		t.Fatal(err)
	}
	if err := db.Update(func(tx *Tx) error { return tx.Put("bk", []byte("k"), []byte("v"), Persistent) }); err != nil {
		t.Fatal(err)
	}
	_ = db.View(func(tx *Tx) error {
		_, _ = tx.GetAll("never-written")
		return nil
	})
	db.Close()
	db, err = Open(opt)
	if err != nil {
		t.Fatalf("REPRODUCED: reopen after a read of a bucket that was never written: %v", err)
	}
	db.Close()
}
