package zset

import "testing"

// Reverse score range whose upper bound lies below every member: the descent never moves, x stays the
// header sentinel, and the header (key "", score 0) is returned as if it were a member.
func TestKF_ReverseRangeReturnsHeader(t *testing.T) {
	ss := New()
	ss.Put("a", 5, []byte("va"))
	ss.Put("b", 6, []byte("vb"))
	nodes := ss.GetByScoreRange(3, -1, nil)
	for _, n := range nodes {
		if ss.GetByKey(n.Key()) != n {
			t.Errorf("REPRODUCED: GetByScoreRange(3,-1) returned a node that is not a member: key=%q score=%v", n.Key(), n.Score())
		}
	}
}

// FindRank compares x.key with the key after every level of the descent, and the header sentinel has key "":
// for a member whose key is the empty string the descent can stop at the header and report the rank reached so far.
func TestKF_FindRankEmptyKey(t *testing.T) {
	wrong := 0
	for try := 0; try < 300; try++ {
		ss := New()
		ss.Put("", 1, nil) // lowest score: its rank is 1
		ss.Put("a", 2, nil)
		ss.Put("b", 3, nil)
		if r := ss.FindRank(""); r != 1 {
			wrong++
		}
	}
	if wrong > 0 {
		t.Errorf("REPRODUCED: FindRank(\"\") != 1 in %d of 300 sets holding \"\"(1), a(2), b(3)", wrong)
	}
}
