package nutsdb

// BS1 (bounded stand-in, NOT a proof): the real BPTree (Insert / Find / All / Range / PrefixScan /
// PrefixSearchScan) against a sorted-map model.
// Bound (quick): every insertion order of every k <= 7 distinct keys out of a prefix-heavy alphabet
// plus 8-key orders sampled, each followed by overwrites; and seeded random sequences of up to 300 keys
// (ascending, descending and shuffled - enough for internal-node splits and a three-level tree).
// thorough: all orders of 8 keys as well, 1000-key sequences. Everything beyond the bound is sampled.

import (
	"bytes"
	"encoding/json"
	"fmt"
	"math/rand"
	"os"
	"sort"
	"strconv"
	"testing"
)

type bs1Model map[string]string

func (m bs1Model) keys() []string {
	ks := make([]string, 0, len(m))
	for k := range m {
		ks = append(ks, k)
	}
	sort.Strings(ks)
	return ks
}

func bs1Check(t *testing.T, tr *BPTree, m bs1Model, probes []string, what string) bool {
	fail := func(format string, a ...interface{}) bool {
		t.Errorf("BS1 %s: "+format, append([]interface{}{what}, a...)...)
		return false
	}
	ks := m.keys()
	// node invariant assumed by the contracts of the prefix scans (spec nodesOK): every slot below KeysNum of a
	// leaf holds a non-nil *Record with a Hint and MetaData, and the last pointer of a leaf is nil or a leaf
	var walk func(n *Node) bool
	walk = func(n *Node) bool {
		if n == nil {
			return true
		}
		if !n.isLeaf {
			for i := 0; i <= n.KeysNum; i++ {
				c, isNode := n.pointers[i].(*Node)
				if !isNode || c == nil {
					return fail("inner node: child %d of %d is %T", i, n.KeysNum, n.pointers[i])
				}
				if !walk(c) {
					return false
				}
			}
			return true
		}
		for i := 0; i < n.KeysNum; i++ {
			r, isRec := n.pointers[i].(*Record)
			if !isRec || r == nil || r.H == nil || r.H.meta == nil {
				return fail("leaf slot %d of %d does not hold a well-formed *Record: %T", i, n.KeysNum, n.pointers[i])
			}
		}
		if n.pointers[order-1] != nil {
			nx, isNode := n.pointers[order-1].(*Node)
			if isNode && nx != nil && !nx.isLeaf {
				return fail("leaf chain leads to an inner node")
			}
		}
		return true
	}
	if !walk(tr.root) {
		return false
	}
	// Find
	for _, p := range probes {
		r, err := tr.Find([]byte(p))
		want, ok := m[p]
		if ok != (err == nil) {
			return fail("Find(%q) err=%v, model has=%v", p, err, ok)
		}
		if ok && string(r.E.Value) != want {
			return fail("Find(%q) = %q, model %q", p, r.E.Value, want)
		}
	}
	// All
	recs, err := tr.All()
	if len(ks) == 0 {
		if err == nil && len(recs) != 0 {
			return fail("All on empty tree returned %d records", len(recs))
		}
	} else {
		if err != nil || len(recs) != len(ks) {
			return fail("All returned %d records (err %v), model %d", len(recs), err, len(ks))
		}
		for i, r := range recs {
			if string(r.H.key) != ks[i] || string(r.E.Value) != m[ks[i]] {
				return fail("All[%d] = %q=%q, model %q=%q", i, r.H.key, r.E.Value, ks[i], m[ks[i]])
			}
		}
	}
	// Range and PrefixScan for every pair / probe
	for _, a := range probes {
		for _, b := range probes {
			if a > b {
				continue
			}
			var want []string
			for _, k := range ks {
				if k >= a && k <= b {
					want = append(want, k)
				}
			}
			recs, err := tr.Range([]byte(a), []byte(b))
			if len(want) == 0 {
				if err == nil && len(recs) > 0 {
					return fail("Range(%q,%q) returned %d records, model none", a, b, len(recs))
				}
				continue
			}
			if err != nil || len(recs) != len(want) {
				return fail("Range(%q,%q) returned %d records (err %v), model %v", a, b, len(recs), err, want)
			}
			for i, r := range recs {
				if string(r.H.key) != want[i] {
					return fail("Range(%q,%q)[%d] = %q, model %q", a, b, i, r.H.key, want[i])
				}
			}
		}
		var want []string
		for _, k := range ks {
			if bytes.HasPrefix([]byte(k), []byte(a)) {
				want = append(want, k)
			}
		}
		for _, off := range []int{0, 1, 2} {
			for _, lim := range []int{-1, 1, 2} {
				w := want
				if off < len(w) {
					w = w[off:]
				} else {
					w = nil
				}
				if lim > 0 && len(w) > lim {
					w = w[:lim]
				}
				recs, _, err := tr.PrefixScan([]byte(a), off, lim)
				if len(w) == 0 {
					if err == nil && len(recs) > 0 {
						return fail("PrefixScan(%q,%d,%d) returned %d records, model none", a, off, lim, len(recs))
					}
					continue
				}
				if err != nil || len(recs) != len(w) {
					return fail("PrefixScan(%q,%d,%d) returned %d records (err %v), model %v", a, off, lim, len(recs), err, w)
				}
				for i, r := range recs {
					if string(r.H.key) != w[i] {
						return fail("PrefixScan(%q,%d,%d)[%d] = %q, model %q", a, off, lim, i, r.H.key, w[i])
					}
				}
			}
		}
		// PrefixSearchScan: remainder must match ^1
		var wantS []string
		for _, k := range want {
			rest := k[len(a):]
			if len(rest) > 0 && rest[0] == '1' {
				wantS = append(wantS, k)
			}
		}
		// remainder empty (the key equal to the prefix) must be found by ^$
		if _, has := m[a]; has {
			r0, _, err0 := tr.PrefixSearchScan([]byte(a), "^$", 0, -1)
			if err0 != nil || len(r0) != 1 || string(r0[0].H.key) != a {
				return fail("PrefixSearchScan(%q,^$) = %d records (err %v), model exactly the key itself", a, len(r0), err0)
			}
		}
		recs, _, err := tr.PrefixSearchScan([]byte(a), "^1", 0, -1)
		if len(wantS) == 0 {
			if err == nil && len(recs) > 0 {
				return fail("PrefixSearchScan(%q,^1) returned %d records, model none", a, len(recs))
			}
		} else {
			if err != nil || len(recs) != len(wantS) {
				return fail("PrefixSearchScan(%q,^1) returned %d records (err %v), model %v", a, len(recs), err, wantS)
			}
			for i, r := range recs {
				if string(r.H.key) != wantS[i] {
					return fail("PrefixSearchScan(%q,^1)[%d] = %q, model %q", a, i, r.H.key, wantS[i])
				}
			}
		}
	}
	return true
}

func bs1Insert(tr *BPTree, m bs1Model, k, v string) {
	_ = tr.Insert([]byte(k), &Entry{Key: []byte(k), Value: []byte(v)}, &Hint{key: []byte(k), meta: &MetaData{Flag: DataSetFlag}}, CountFlagEnabled)
	m[k] = v
}

func bs1Permute(a []string, f func([]string) bool) bool {
	var rec func(int) bool
	rec = func(i int) bool {
		if i == len(a) {
			return f(a)
		}
		for j := i; j < len(a); j++ {
			a[i], a[j] = a[j], a[i]
			if !rec(i + 1) {
				return false
			}
			a[i], a[j] = a[j], a[i]
		}
		return true
	}
	return rec(0)
}

func TestBS1BPTree(t *testing.T) {
	thorough := os.Getenv("VERIF_TIER") == "thorough"
	seed, _ := strconv.Atoi(os.Getenv("VERIF_SEED"))
	rng := rand.New(rand.NewSource(int64(seed) + 1))
	alphabet := []string{"a", "a1", "a11", "a12", "a2", "ab", "b", "b1", "c"}
	probes := append([]string{"", "a0", "a1z", "bz", "d"}, alphabet...)
	sort.Strings(probes)
	cases, exhaustive := 0, 0
	ok := true
	maxK := 7
	if thorough {
		maxK = 8
	}
	// all insertion orders of every prefix of the alphabet up to maxK keys
	for k := 1; k <= maxK && ok; k++ {
		keys := append([]string{}, alphabet[:k]...)
		ok = bs1Permute(keys, func(p []string) bool {
			tr, m := NewTree(), bs1Model{}
			for i, key := range p {
				bs1Insert(tr, m, key, fmt.Sprint("v", i))
			}
			cases++
			exhaustive++
			if !bs1Check(t, tr, m, probes, fmt.Sprintf("order %v", p)) {
				return false
			}
			// overwrite every key, check again
			for i, key := range p {
				bs1Insert(tr, m, key, fmt.Sprint("w", i))
			}
			return bs1Check(t, tr, m, probes, fmt.Sprintf("order %v + overwrites", p))
		})
	}
	// sampled 8/9-key orders
	for s := 0; s < 300 && ok; s++ {
		keys := append([]string{}, alphabet...)
		rng.Shuffle(len(keys), func(i, j int) { keys[i], keys[j] = keys[j], keys[i] })
		tr, m := NewTree(), bs1Model{}
		for i, key := range keys {
			bs1Insert(tr, m, key, fmt.Sprint("v", i))
		}
		cases++
		ok = bs1Check(t, tr, m, probes, fmt.Sprintf("sampled order %v", keys))
	}
	// long sequences: internal splits, three levels
	n := 300
	if thorough {
		n = 1000
	}
	for _, mode := range []string{"asc", "desc", "shuffle", "shuffle2"} {
		if !ok {
			break
		}
		keys := make([]string, n)
		for i := range keys {
			keys[i] = fmt.Sprintf("k%04d", i)
		}
		switch mode {
		case "desc":
			sort.Sort(sort.Reverse(sort.StringSlice(keys)))
		case "shuffle", "shuffle2":
			rng.Shuffle(len(keys), func(i, j int) { keys[i], keys[j] = keys[j], keys[i] })
		}
		tr, m := NewTree(), bs1Model{}
		lp := []string{"k", "k00", "k0010", "k0299", "k03", "k1", "z"}
		for i, key := range keys {
			bs1Insert(tr, m, key, fmt.Sprint("v", i))
			if i%37 == 0 || i == n-1 {
				cases++
				pr := append(append([]string{}, lp...), key, keys[i/2])
				sort.Strings(pr)
				if ok = bs1Check(t, tr, m, pr, fmt.Sprintf("%s sequence after %d inserts", mode, i+1)); !ok {
					break
				}
			}
		}
	}
	if p := os.Getenv("GOVC_STANDIN_OUT"); p != "" {
		b, _ := json.Marshal(map[string]interface{}{"cases": cases, "distinct_nontrivial": exhaustive, "exhaustive_within_bound": false,
			"samples": []string{"all insertion orders of the first k<=" + fmt.Sprint(maxK) + " keys of " + fmt.Sprint(alphabet), fmt.Sprint(n, "-key ascending / descending / shuffled sequences")}})
		os.WriteFile(p, b, 0o644)
	}
}
