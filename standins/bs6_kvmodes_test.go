package nutsdb

// BS6 (bounded stand-in, NOT a proof): key/value histories under every combination of the storage options of C19
// (RWMode x StartFileLoadingMode x SyncEnable x the two RAM index modes = 16 configurations), each against an
// ordered-map model. The contracts decide the mechanisms (hint = file and offset of the bytes written / read,
// one interface contract for both RWManagers, the end-of-segment handling of the loaders); this runs the real
// database with a tiny segment size - records that end exactly at the end of a segment, tombstones and empty
// values included - with clean reopens, and compares Get of every key, GetAll, RangeScan over a grid of bounds
// and PrefixScan after every transaction. Its second role is the fall-back when a change takes the read layer
// out of the verified subset. Bounded by seeds, transactions and the key alphabet.

import (
	"encoding/json"
	"fmt"
	"io/ioutil"
	"math/rand"
	"os"
	"sort"
	"strconv"
	"testing"
)

// all keys have two bytes: a put with a 4-byte value takes 50 bytes, a tombstone or an empty value 46, and the
// segment size 4*50 + 2*46 is hit exactly by about a third of the segments, by either kind of record
var bs6Keys = []string{"a0", "a1", "ab", "b0", "b1", "c0"}

func bs6Open(t *testing.T, dir string, cfg int) (*DB, error) {
	opt := DefaultOptions
	opt.Dir = dir
	opt.SegmentSize = 4*(DataEntryHeaderSize+2+2+4) + 2*(DataEntryHeaderSize+2+2)
	opt.RWMode = RWMode(cfg & 1)
	opt.StartFileLoadingMode = RWMode((cfg >> 1) & 1)
	opt.SyncEnable = (cfg>>2)&1 == 1
	opt.EntryIdxMode = HintKeyValAndRAMIdxMode
	if (cfg>>3)&1 == 1 {
		opt.EntryIdxMode = HintKeyAndRAMIdxMode
	}
	return Open(opt)
}

func bs6Check(t *testing.T, db *DB, m map[string]string, what string) bool {
	ok := true
	fail := func(f string, a ...interface{}) {
		if ok {
			t.Errorf("BS6 after %s: "+f, append([]interface{}{what}, a...)...)
		}
		ok = false
	}
	var live []string
	for k := range m {
		live = append(live, k)
	}
	sort.Strings(live)
	_ = db.View(func(tx *Tx) error {
		for _, k := range bs6Keys {
			e, err := tx.Get("bk", []byte(k))
			want, has := m[k]
			if has != (err == nil) || (has && (string(e.Value) != want || string(e.Key) != k)) {
				fail("Get(%s) err %v, model has=%v %q", k, err, has, want)
			}
		}
		cmp := func(name string, es Entries, err error, want []string) {
			if len(want) == 0 {
				if err == nil && len(es) > 0 {
					fail("%s returned %d entries, model none", name, len(es))
				}
				return
			}
			if err != nil || len(es) != len(want) {
				fail("%s returned %d entries (err %v), model %v", name, len(es), err, want)
				return
			}
			for i, e := range es {
				if e == nil || string(e.Key) != want[i] || string(e.Value) != m[want[i]] {
					fail("%s[%d] differs from the model %s=%q", name, i, want[i], m[want[i]])
					return
				}
			}
		}
		if len(live) > 0 || len(m) == 0 {
			all, err := tx.GetAll("bk")
			cmp("GetAll", all, err, live)
		}
		bounds := []string{"a", "a1", "aa", "b", "b1", "d"}
		for _, lo := range bounds {
			for _, hi := range bounds {
				if lo > hi {
					continue
				}
				var want []string
				for _, k := range live {
					if k >= lo && k <= hi {
						want = append(want, k)
					}
				}
				es, err := tx.RangeScan("bk", []byte(lo), []byte(hi))
				cmp(fmt.Sprintf("RangeScan(%s,%s)", lo, hi), es, err, want)
			}
		}
		for _, p := range []string{"a", "ab", "b", "c0", "d"} {
			var want []string
			for _, k := range live {
				if len(k) >= len(p) && k[:len(p)] == p {
					want = append(want, k)
				}
			}
			es, _, err := tx.PrefixScan("bk", []byte(p), 0, 100)
			cmp(fmt.Sprintf("PrefixScan(%s,0,100)", p), es, err, want)
		}
		return nil
	})
	return ok
}

func TestBS6KVModes(t *testing.T) {
	seeds, nops := 2, 24
	if os.Getenv("VERIF_TIER") == "thorough" {
		seeds, nops = 12, 60
	}
	base := 0
	if s, err := strconv.Atoi(os.Getenv("VERIF_SEED")); err == nil {
		base = s * 1000
	}
	txs, checks, reopens := 0, 0, 0
	passed := true
	for seed := 0; seed < seeds && passed; seed++ {
		for cfg := 0; cfg < 16 && passed; cfg++ {
			// the same history for every configuration of a seed
			rnd := rand.New(rand.NewSource(int64(base + seed + 1)))
			dir, err := ioutil.TempDir("", "govc-bs6")
			if err != nil {
				t.Fatal(err)
			}
			db, err := bs6Open(t, dir, cfg)
			if err != nil {
				t.Errorf("BS6 cfg %d: Open of an empty directory: %v", cfg, err)
				passed = false
				os.RemoveAll(dir)
				break
			}
			m := map[string]string{}
			what := fmt.Sprintf("seed %d cfg %d (RWMode %d, StartFileLoadingMode %d, SyncEnable %v, key-only %v):", base+seed+1, cfg, cfg&1, (cfg>>1)&1, (cfg>>2)&1 == 1, (cfg>>3)&1 == 1)
			for op := 0; op < nops && passed; op++ {
				n := 1 + rnd.Intn(3)
				pend := map[string]*string{}
				err := db.Update(func(tx *Tx) error {
					for i := 0; i < n; i++ {
						k := bs6Keys[rnd.Intn(len(bs6Keys))]
						switch rnd.Intn(6) {
						case 0:
							what += " del " + k
							if err := tx.Delete("bk", []byte(k)); err != nil {
								return err
							}
							pend[k] = nil
						case 1:
							v := ""
							what += " put " + k + "=\"\""
							if err := tx.Put("bk", []byte(k), []byte(v), Persistent); err != nil {
								return err
							}
							pend[k] = &v
						default:
							v := fmt.Sprintf("%04d", (op*7+i)%10000)
							what += " put " + k + "=" + v
							if err := tx.Put("bk", []byte(k), []byte(v), Persistent); err != nil {
								return err
							}
							pend[k] = &v
						}
					}
					return nil
				})
				if err != nil {
					t.Errorf("BS6 %s: Update failed: %v", what, err)
					passed = false
					break
				}
				what += ";"
				txs++
				for k, v := range pend {
					if v == nil {
						delete(m, k)
					} else {
						m[k] = *v
					}
				}
				if rnd.Intn(5) == 0 {
					if err := db.Close(); err != nil {
						t.Errorf("BS6 %s: Close: %v", what, err)
						passed = false
						break
					}
					db, err = bs6Open(t, dir, cfg)
					if err != nil {
						t.Errorf("BS6 %s: reopen of a directory written by the library failed: %v", what, err)
						passed = false
						break
					}
					what += " reopen;"
					reopens++
				}
				checks++
				if !bs6Check(t, db, m, what) {
					passed = false
				}
			}
			if db != nil {
				db.Close()
			}
			os.RemoveAll(dir)
		}
	}
	if out := os.Getenv("GOVC_STANDIN_OUT"); out != "" {
		b, _ := json.Marshal(map[string]interface{}{"seeds": seeds, "configurations": 16, "transactions": txs, "checks": checks, "reopens": reopens, "cases": checks, "passed": passed})
		os.WriteFile(out, b, 0o644)
	}
}
