package list

// BS3 (bounded stand-in, NOT a proof): the real ds/list LRem / LRemNum against a sequence model.
// Bound: every list of length 0..6 over the values {a,b}, every count in -8..8 plus MaxInt64 and
// MinInt64+1, both values; exhaustive within that bound. MinInt64 itself is excluded: it is the
// recorded known finding (negation overflow).

import (
	"bytes"
	"encoding/json"
	"math"
	"os"
	"testing"
)

func bs3Model(xs [][]byte, count int, v []byte) (out [][]byte, removed int, errCount bool) {
	if count > len(xs) {
		return xs, 0, true
	}
	n := count
	if n < 0 {
		n = -n
	}
	keep := make([]bool, len(xs))
	for i := range keep {
		keep[i] = true
	}
	if count >= 0 {
		for i := 0; i < len(xs); i++ {
			if bytes.Equal(xs[i], v) && (count == 0 || removed < n) {
				keep[i] = false
				removed++
			}
		}
	} else {
		for i := len(xs) - 1; i >= 0; i-- {
			if bytes.Equal(xs[i], v) && removed < n {
				keep[i] = false
				removed++
			}
		}
	}
	for i, k := range keep {
		if k {
			out = append(out, xs[i])
		}
	}
	return out, removed, false
}

func TestBS3ListLRem(t *testing.T) {
	vals := [][]byte{[]byte("a"), []byte("b")}
	counts := []int{math.MaxInt64, math.MinInt64 + 1}
	for c := -8; c <= 8; c++ {
		counts = append(counts, c)
	}
	cases, nontrivial := 0, 0
	var sample []string
	for n := 0; n <= 6; n++ {
		for mask := 0; mask < 1<<uint(n); mask++ {
			xs := make([][]byte, n)
			for i := 0; i < n; i++ {
				xs[i] = vals[(mask>>uint(i))&1]
			}
			for _, c := range counts {
				for _, v := range vals {
					cases++
					l := New()
					if n > 0 {
						l.RPush("k", xs...)
					} else {
						l.Items["k"] = [][]byte{}
					}
					want, wantN, wantErr := bs3Model(xs, c, v)
					var got int
					var err error
					func() {
						defer func() {
							if r := recover(); r != nil {
								t.Errorf("BS3 panic: list=%q LRem(%d,%q): %v", xs, c, v, r)
							}
						}()
						got, err = l.LRem("k", c, v)
					}()
					if wantErr {
						if err == nil {
							t.Errorf("BS3: list=%q LRem(%d,%q) should fail with ErrCount", xs, c, v)
						}
						continue
					}
					if wantN > 0 {
						nontrivial++
					}
					if err != nil || got != wantN {
						t.Errorf("BS3: list=%q LRem(%d,%q) = (%d,%v), model removes %d", xs, c, v, got, err, wantN)
						continue
					}
					have := l.Items["k"]
					if len(have) != len(want) {
						t.Errorf("BS3: list=%q LRem(%d,%q) leaves %q, model %q", xs, c, v, have, want)
						continue
					}
					for i := range want {
						if !bytes.Equal(have[i], want[i]) {
							t.Errorf("BS3: list=%q LRem(%d,%q) leaves %q, model %q", xs, c, v, have, want)
							break
						}
					}
					if len(sample) < 3 && wantN > 1 {
						sample = append(sample, string(bytes.Join(xs, nil))+" LRem("+string(v)+") ok")
					}
				}
			}
		}
	}
	if p := os.Getenv("GOVC_STANDIN_OUT"); p != "" {
		b, _ := json.Marshal(map[string]interface{}{"cases": cases, "distinct_nontrivial": nontrivial, "exhaustive_within_bound": true, "samples": sample})
		os.WriteFile(p, b, 0o644)
	}
}
