package nutsdb

// BS4 (bounded stand-in, NOT a proof): key/value reads in HintBPTSparseIdxMode against an ordered-map model.
// The contracts decide which sealed segments a read consults and with which composite key; the walkers that
// read the node files of sealed segments (FindOnDisk, FindLeafOnDisk, findRangeOnDisk, findPrefixOnDisk,
// FindTxIDOnDisk, ReadNode / WriteNodes) depend on file contents written by earlier commits and are only
// assumed there. Here the real database runs in sparse mode with a tiny segment size (many rotations),
// two buckets with unambiguous names, and seeded histories of Put / Delete transactions with clean reopens; after every
// transaction Get of every key of the alphabet, GetAll, RangeScan over a grid of bounds and PrefixScan
// (limit 100 and no limit) are compared with the model. Bounded by the number of seeds and operations.

import (
	"encoding/json"
	"fmt"
	"io/ioutil"
	"math/rand"
	"os"
	"sort"
	"strconv"
	"testing"
)

func bs4Keys() []string {
	var ks []string
	for _, a := range "ab" {
		for _, b := range "xy" {
			for c := 0; c < 3; c++ {
				ks = append(ks, string(a)+string(b)+strconv.Itoa(c))
			}
		}
	}
	return ks
}

func bs4Open(t *testing.T, dir string) *DB {
	opt := DefaultOptions
	opt.Dir = dir
	opt.SegmentSize = 400
	opt.EntryIdxMode = HintBPTSparseIdxMode
	db, err := Open(opt)
	if err != nil {
		t.Fatalf("BS4: Open: %v", err)
	}
	return db
}

func bs4Check(t *testing.T, db *DB, bucket string, m map[string]string, what string) bool {
	ok := true
	fail := func(f string, a ...interface{}) {
		if ok {
			t.Errorf("BS4 bucket %s after %s: "+f, append([]interface{}{bucket, what}, a...)...)
		}
		ok = false
	}
	var live []string
	for k := range m {
		live = append(live, k)
	}
	sort.Strings(live)
	keys := bs4Keys()
	_ = db.View(func(tx *Tx) error {
		for _, k := range keys {
			e, err := tx.Get(bucket, []byte(k))
			want, has := m[k]
			if has != (err == nil) || (has && string(e.Value) != want) {
				got := "<error>"
				if err == nil {
					got = string(e.Value)
				}
				fail("Get(%s) = %s (err %v), model has=%v %q", k, got, err, has, want)
			}
		}
		cmp := func(name string, es Entries, err error, want []string) {
			if len(want) == 0 {
				if err == nil && len(es) > 0 {
					fail("%s returned %d entries, model none", name, len(es))
				}
				return
			}
			if err != nil || len(es) != len(want) {
				fail("%s returned %d entries (err %v), model %v", name, len(es), err, want)
				return
			}
			for i, e := range es {
				if string(e.Key) != want[i] || string(e.Value) != m[want[i]] {
					fail("%s[%d] = %s=%s, model %s=%s", name, i, e.Key, e.Value, want[i], m[want[i]])
					return
				}
			}
		}
		all, err := tx.GetAll(bucket)
		cmp("GetAll", all, err, live)
		bounds := []string{"a", "ax1", "ay", "ay2", "bx0", "by1", "c"}
		for _, lo := range bounds {
			for _, hi := range bounds {
				if lo > hi {
					continue
				}
				var want []string
				for _, k := range live {
					if k >= lo && k <= hi {
						want = append(want, k)
					}
				}
				es, err := tx.RangeScan(bucket, []byte(lo), []byte(hi))
				cmp(fmt.Sprintf("RangeScan(%s,%s)", lo, hi), es, err, want)
			}
		}
		for _, p := range []string{"a", "ax", "ay", "b", "by", "c"} {
			var want []string
			for _, k := range live {
				if len(k) >= len(p) && k[:len(p)] == p {
					want = append(want, k)
				}
			}
			es, _, err := tx.PrefixScan(bucket, []byte(p), 0, 100)
			cmp(fmt.Sprintf("PrefixScan(%s,0,100)", p), es, err, want)
			es, _, err = tx.PrefixScan(bucket, []byte(p), 0, ScanNoLimit)
			cmp(fmt.Sprintf("PrefixScan(%s,0,nolimit)", p), es, err, want)
		}
		return nil
	})
	return ok
}

func TestBS4Sparse(t *testing.T) {
	seeds, nops := 6, 30
	if os.Getenv("VERIF_TIER") == "thorough" {
		seeds, nops = 40, 60
	}
	base := 0
	if s, err := strconv.Atoi(os.Getenv("VERIF_SEED")); err == nil {
		base = s * 1000
	}
	keys := bs4Keys()
	txs, checks, reopens := 0, 0, 0
	passed := true
	for seed := 0; seed < seeds && passed; seed++ {
		rnd := rand.New(rand.NewSource(int64(base + seed + 1)))
		dir, err := ioutil.TempDir("", "govc-bs4")
		if err != nil {
			t.Fatal(err)
		}
		db := bs4Open(t, dir)
		buckets := []string{"bk", "cq"}
		ms := map[string]map[string]string{"bk": {}, "cq": {}}
		what := fmt.Sprintf("seed %d:", base+seed+1)
		for op := 0; op < nops && passed; op++ {
			n := 1 + rnd.Intn(3)
			pend := map[string]*string{}
			bucket := buckets[rnd.Intn(2)]
			m := ms[bucket]
			err := db.Update(func(tx *Tx) error {
				for i := 0; i < n; i++ {
					k := keys[rnd.Intn(len(keys))]
					if rnd.Intn(4) == 0 {
						what += " del " + bucket + "/" + k
						if err := tx.Delete(bucket, []byte(k)); err != nil {
							return err
						}
						pend[k] = nil
					} else {
						v := fmt.Sprintf("v%d.%d.%d-0123456789", seed, op, i)
						what += " put " + bucket + "/" + k
						if err := tx.Put(bucket, []byte(k), []byte(v), Persistent); err != nil {
							return err
						}
						pend[k] = &v
					}
				}
				return nil
			})
			if err != nil {
				t.Errorf("BS4 %s: Update failed: %v", what, err)
				passed = false
				break
			}
			what += ";"
			txs++
			for k, v := range pend {
				if v == nil {
					delete(m, k)
				} else {
					m[k] = *v
				}
			}
			if rnd.Intn(7) == 0 {
				if err := db.Close(); err != nil {
					t.Errorf("BS4 %s: Close: %v", what, err)
					passed = false
					break
				}
				db = bs4Open(t, dir)
				what += " reopen;"
				reopens++
			}
			checks++
			for _, b := range buckets {
				if !bs4Check(t, db, b, ms[b], what) {
					passed = false
				}
			}
		}
		db.Close()
		os.RemoveAll(dir)
	}
	if out := os.Getenv("GOVC_STANDIN_OUT"); out != "" {
		b, _ := json.Marshal(map[string]interface{}{"seeds": seeds, "transactions": txs, "checks": checks, "reopens": reopens, "cases": checks, "passed": passed})
		os.WriteFile(out, b, 0o644)
	}
}
