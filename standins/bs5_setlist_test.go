package nutsdb

// BS5 (bounded stand-in, NOT a proof): sets, lists and key/value pairs of two buckets through the transactional API
// against a mathematical-set model, a slice model and a map model, including transactions that mix the three. Its role is the fall-back for changes that take the code out of the verified subset
// (a new helper with a loop and no contract leaves the proof of C05 / C06 undecided): then, and always in
// addition to the proof obligations, the real database runs seeded histories of write transactions with clean
// reopens and every read in a separate View is compared with the model.
//
// The histories stay inside the part of the behaviour on which the pinned library and the property agree
// (so that the three known findings of C13 - reads inside a transaction do not see its own writes - and the
// SMove finding cannot show here): a transaction is either any number of SAdd / SRem / RPush / LPush calls, where
// an item is only removed if it is a member both in the committed state and in the model state of the
// transaction, or one single SPop / LPop / RPop / LRem / LSet / LTrim. Bounded by seeds and operations.

import (
	"encoding/json"
	"fmt"
	"io/ioutil"
	"math/rand"
	"os"
	"sort"
	"strconv"
	"testing"
)

func bs5Open(t *testing.T, dir string, mode EntryIdxMode) *DB {
	opt := DefaultOptions
	opt.Dir = dir
	opt.SegmentSize = 2048
	opt.EntryIdxMode = mode
	db, err := Open(opt)
	if err != nil {
		t.Fatalf("BS5: Open: %v", err)
	}
	return db
}

func bs5SortedSet(m map[string]bool) []string {
	var s []string
	for k := range m {
		s = append(s, k)
	}
	sort.Strings(s)
	return s
}

// bs5Check compares every set and every list of the model with what a View transaction reads.
func bs5Check(t *testing.T, db *DB, sets map[string]map[string]bool, lists map[string][]string, kv map[string]map[string]string, items []string, what string) bool {
	ok := true
	fail := func(f string, a ...interface{}) {
		if ok {
			t.Errorf("BS5 after %s: "+f, append([]interface{}{what}, a...)...)
		}
		ok = false
	}
	_ = db.View(func(tx *Tx) error {
		for bk, m := range sets {
			bucket, key := bk[:2], []byte(bk[3:])
			want := bs5SortedSet(m)
			got, err := tx.SMembers(bucket, key)
			var gs []string
			for _, g := range got {
				gs = append(gs, string(g))
			}
			sort.Strings(gs)
			if len(want) == 0 {
				if err == nil && len(gs) > 0 {
					fail("SMembers(%s) = %v, model empty", bk, gs)
				}
				continue
			}
			if err != nil || fmt.Sprint(gs) != fmt.Sprint(want) {
				fail("SMembers(%s) = %v (err %v), model %v", bk, gs, err, want)
				continue
			}
			if n, err := tx.SCard(bucket, key); err != nil || n != len(want) {
				fail("SCard(%s) = %d (err %v), model %d", bk, n, err, len(want))
			}
			for _, it := range items {
				is, err := tx.SIsMember(bucket, key, []byte(it))
				if (err == nil && is) != m[it] {
					fail("SIsMember(%s,%s) = %v (err %v), model %v", bk, it, is, err, m[it])
				}
			}
			if all, err := tx.SAreMembers(bucket, key, []byte(want[0]), []byte(want[len(want)-1])); err != nil || !all {
				fail("SAreMembers(%s,%s,%s) = %v (err %v)", bk, want[0], want[len(want)-1], all, err)
			}
		}
		for bucket, m := range kv {
			var want []string
			for k := range m {
				want = append(want, k)
			}
			sort.Strings(want)
			for _, k := range bs5KVKeys {
				e, err := tx.Get(bucket, []byte(k))
				v, has := m[k]
				if has != (err == nil) || (has && string(e.Value) != v) {
					fail("Get(%s,%s) err %v, model has=%v %q", bucket, k, err, has, v)
				}
			}
			es, err := tx.GetAll(bucket)
			if len(want) == 0 {
				if err == nil && len(es) > 0 {
					fail("GetAll(%s) returned %d entries, model none", bucket, len(es))
				}
				continue
			}
			if err != nil || len(es) != len(want) {
				fail("GetAll(%s) returned %d entries (err %v), model %v", bucket, len(es), err, want)
				continue
			}
			for i, e := range es {
				if string(e.Key) != want[i] || string(e.Value) != m[want[i]] {
					fail("GetAll(%s)[%d] = %s=%s, model %s=%s", bucket, i, e.Key, e.Value, want[i], m[want[i]])
				}
			}
		}
		for bk, l := range lists {
			bucket, key := bk[:2], []byte(bk[3:])
			got, err := tx.LRange(bucket, key, 0, -1)
			var gs []string
			for _, g := range got {
				gs = append(gs, string(g))
			}
			if len(l) == 0 {
				if err == nil && len(gs) > 0 {
					fail("LRange(%s,0,-1) = %v, model empty", bk, gs)
				}
				continue
			}
			if err != nil || fmt.Sprint(gs) != fmt.Sprint(l) {
				fail("LRange(%s,0,-1) = %v (err %v), model %v", bk, gs, err, l)
				continue
			}
			if n, err := tx.LSize(bucket, key); err != nil || n != len(l) {
				fail("LSize(%s) = %d (err %v), model %d", bk, n, err, len(l))
			}
			if h, err := tx.LPeek(bucket, key); err != nil || string(h) != l[0] {
				fail("LPeek(%s) = %s (err %v), model %s", bk, h, err, l[0])
			}
			if r, err := tx.RPeek(bucket, key); err != nil || string(r) != l[len(l)-1] {
				fail("RPeek(%s) = %s (err %v), model %s", bk, r, err, l[len(l)-1])
			}
		}
		return nil
	})
	return ok
}

var bs5KVKeys = []string{"k", "kk", "m"}

func TestBS5SetList(t *testing.T) {
	seeds, nops := 6, 40
	if os.Getenv("VERIF_TIER") == "thorough" {
		seeds, nops = 40, 80
	}
	base := 0
	if s, err := strconv.Atoi(os.Getenv("VERIF_SEED")); err == nil {
		base = s * 1000
	}
	items := []string{"a", "b", "ab", "", "c"}
	names := []string{"s1/k", "s1/kk", "s2/k"} // bucket (2 chars) / key
	txs, checks, reopens := 0, 0, 0
	passed := true
	for seed := 0; seed < seeds && passed; seed++ {
		rnd := rand.New(rand.NewSource(int64(base + seed + 1)))
		mode := HintKeyValAndRAMIdxMode // the only mode in which lists and sets are supported (README, "Index mode")
		dir, err := ioutil.TempDir("", "govc-bs5")
		if err != nil {
			t.Fatal(err)
		}
		db := bs5Open(t, dir, mode)
		sets := map[string]map[string]bool{}
		lists := map[string][]string{}
		kv := map[string]map[string]string{"s1": {}, "s2": {}}
		for _, n := range names {
			sets[n] = map[string]bool{}
			lists[n] = nil
		}
		what := fmt.Sprintf("seed %d:", base+seed+1)
		for op := 0; op < nops && passed; op++ {
			name := names[rnd.Intn(len(names))]
			bucket, key := name[:2], []byte(name[3:])
			var apply func() // model update, run when the transaction committed
			var txerr error
			switch kind := rnd.Intn(12); {
			case kind >= 10: // a mixed transaction over both buckets: key/value writes interleaved with set / list appends
				kvNew := map[string]map[string]string{"s1": {}, "s2": {}}
				for b, m := range kv {
					for k, v := range m {
						kvNew[b][k] = v
					}
				}
				setAdds := map[string][]string{}
				listAdds := map[string][]string{}
				n := 2 + rnd.Intn(4)
				txerr = db.Update(func(tx *Tx) error {
					for i := 0; i < n; i++ {
						b := []string{"s1", "s2"}[rnd.Intn(2)]
						k := bs5KVKeys[rnd.Intn(len(bs5KVKeys))]
						switch rnd.Intn(5) {
						case 0, 1:
							v := fmt.Sprintf("kv%d.%d", op, i)
							what += fmt.Sprintf(" Put(%s,%s,%s)", b, k, v)
							if err := tx.Put(b, []byte(k), []byte(v), Persistent); err != nil {
								return err
							}
							kvNew[b][k] = v
						case 2:
							what += fmt.Sprintf(" Delete(%s,%s)", b, k)
							if err := tx.Delete(b, []byte(k)); err != nil {
								return err
							}
							delete(kvNew[b], k)
						case 3:
							it := items[rnd.Intn(3)]
							what += fmt.Sprintf(" SAdd(%s/k,%q)", b, it)
							if err := tx.SAdd(b, []byte("k"), []byte(it)); err != nil {
								return err
							}
							setAdds[b+"/k"] = append(setAdds[b+"/k"], it)
						default:
							v := fmt.Sprintf("m%d.%d", op, i)
							what += fmt.Sprintf(" RPush(%s/k,%q)", b, v)
							if err := tx.RPush(b, []byte("k"), []byte(v)); err != nil {
								return err
							}
							listAdds[b+"/k"] = append(listAdds[b+"/k"], v)
						}
					}
					return nil
				})
				apply = func() {
					kv = kvNew
					for n, its := range setAdds {
						for _, it := range its {
							sets[n][it] = true
						}
					}
					for n, vs := range listAdds {
						lists[n] = append(append([]string{}, lists[n]...), vs...)
					}
				}
			case kind < 4: // several SAdd / SRem on one set
				// sets never get the empty member here: Set.SRem refuses it, so it can be added and popped but never
				// removed (known finding of C06, set.Set.SRem#at1.return_[2]); lists do get empty values
				items := items[:3]
				committed := sets[name]
				cur := map[string]bool{}
				for k := range committed {
					cur[k] = true
				}
				n := 1 + rnd.Intn(4)
				txerr = db.Update(func(tx *Tx) error {
					for i := 0; i < n; i++ {
						it := items[rnd.Intn(len(items))]
						if committed[it] && cur[it] && rnd.Intn(2) == 0 {
							what += fmt.Sprintf(" SRem(%s,%q)", name, it)
							if err := tx.SRem(bucket, key, []byte(it)); err != nil {
								return err
							}
							delete(cur, it)
						} else {
							it2 := items[rnd.Intn(len(items))]
							what += fmt.Sprintf(" SAdd(%s,%q,%q)", name, it, it2)
							if err := tx.SAdd(bucket, key, []byte(it), []byte(it2)); err != nil {
								return err
							}
							cur[it], cur[it2] = true, true
						}
					}
					return nil
				})
				apply = func() { sets[name] = cur }
			case kind == 4: // one SPop
				if len(sets[name]) == 0 {
					continue
				}
				var popped string
				txerr = db.Update(func(tx *Tx) error {
					it, err := tx.SPop(bucket, key)
					popped = string(it)
					return err
				})
				what += fmt.Sprintf(" SPop(%s)=%q", name, popped)
				apply = func() {
					if !sets[name][popped] {
						t.Errorf("BS5 after %s: SPop returned %q, not a member of the model %v", what, popped, bs5SortedSet(sets[name]))
						passed = false
					}
					delete(sets[name], popped)
				}
			case kind < 8: // pushes on one list
				l := append([]string{}, lists[name]...)
				n := 1 + rnd.Intn(3)
				txerr = db.Update(func(tx *Tx) error {
					for i := 0; i < n; i++ {
						v1, v2 := items[rnd.Intn(len(items))], fmt.Sprintf("v%d.%d", op, i)
						if rnd.Intn(2) == 0 {
							what += fmt.Sprintf(" RPush(%s,%q,%q)", name, v1, v2)
							if err := tx.RPush(bucket, key, []byte(v1), []byte(v2)); err != nil {
								return err
							}
							l = append(l, v1, v2)
						} else {
							what += fmt.Sprintf(" LPush(%s,%q,%q)", name, v1, v2)
							if err := tx.LPush(bucket, key, []byte(v1), []byte(v2)); err != nil {
								return err
							}
							l = append([]string{v2, v1}, l...)
						}
					}
					return nil
				})
				apply = func() { lists[name] = l }
			default: // one removing / rewriting list operation
				l := append([]string{}, lists[name]...)
				if len(l) == 0 {
					continue
				}
				switch rnd.Intn(5) {
				case 0:
					var got []byte
					txerr = db.Update(func(tx *Tx) (err error) { got, err = tx.LPop(bucket, key); return })
					what += fmt.Sprintf(" LPop(%s)=%q", name, got)
					want := l[0]
					apply = func() {
						if string(got) != want {
							t.Errorf("BS5 after %s: LPop returned %q, model head %q", what, got, want)
							passed = false
						}
						lists[name] = l[1:]
					}
				case 1:
					var got []byte
					txerr = db.Update(func(tx *Tx) (err error) { got, err = tx.RPop(bucket, key); return })
					what += fmt.Sprintf(" RPop(%s)=%q", name, got)
					want := l[len(l)-1]
					apply = func() {
						if string(got) != want {
							t.Errorf("BS5 after %s: RPop returned %q, model tail %q", what, got, want)
							passed = false
						}
						lists[name] = l[:len(l)-1]
					}
				case 2:
					idx, v := rnd.Intn(len(l)), fmt.Sprintf("set%d", op)
					txerr = db.Update(func(tx *Tx) error { return tx.LSet(bucket, key, idx, []byte(v)) })
					what += fmt.Sprintf(" LSet(%s,%d,%q)", name, idx, v)
					apply = func() { l[idx] = v; lists[name] = l }
				case 3:
					a, b := rnd.Intn(len(l)), rnd.Intn(len(l))
					if a > b {
						a, b = b, a
					}
					txerr = db.Update(func(tx *Tx) error { return tx.LTrim(bucket, key, a, b) })
					what += fmt.Sprintf(" LTrim(%s,%d,%d)", name, a, b)
					apply = func() { lists[name] = append([]string{}, l[a:b+1]...) }
				default:
					v := l[rnd.Intn(len(l))]
					occ := 0
					for _, x := range l {
						if x == v {
							occ++
						}
					}
					count := rnd.Intn(2*occ+1) - occ // -occ .. occ, within the number of occurrences
					var removed int
					txerr = db.Update(func(tx *Tx) (err error) { removed, err = tx.LRem(bucket, key, count, []byte(v)); return })
					what += fmt.Sprintf(" LRem(%s,%d,%q)=%d", name, count, v, removed)
					apply = func() {
						var out []string
						n := count
						if n == 0 {
							for _, x := range l {
								if x != v {
									out = append(out, x)
								}
							}
						} else if n > 0 {
							for _, x := range l {
								if x == v && n > 0 {
									n--
									continue
								}
								out = append(out, x)
							}
						} else {
							for i := len(l) - 1; i >= 0; i-- {
								if l[i] == v && n < 0 {
									n++
									continue
								}
								out = append([]string{l[i]}, out...)
							}
						}
						want := len(l) - len(out)
						if removed != want {
							t.Errorf("BS5 after %s: LRem reported %d removed, model %d", what, removed, want)
							passed = false
						}
						lists[name] = out
					}
				}
			}
			if txerr != nil {
				t.Errorf("BS5 %s: Update failed: %v", what, txerr)
				passed = false
				break
			}
			apply()
			what += ";"
			txs++
			if rnd.Intn(7) == 0 {
				if err := db.Close(); err != nil {
					t.Errorf("BS5 %s: Close: %v", what, err)
					passed = false
					break
				}
				db = bs5Open(t, dir, mode)
				what += " reopen;"
				reopens++
			}
			checks++
			if !bs5Check(t, db, sets, lists, kv, items, what) {
				passed = false
			}
		}
		db.Close()
		os.RemoveAll(dir)
	}
	if out := os.Getenv("GOVC_STANDIN_OUT"); out != "" {
		b, _ := json.Marshal(map[string]interface{}{"seeds": seeds, "transactions": txs, "checks": checks, "reopens": reopens, "cases": checks, "passed": passed})
		os.WriteFile(out, b, 0o644)
	}
}
