package zset

// BS2 (bounded stand-in, NOT a proof): the real ds/zset SortedSet against a model ordered by (score, key).
// The contracts prove the structural invariants of the skip list (no panic, no header returned, Dict
// consistency); ordering, span / rank bookkeeping and the exact contents of range queries need an inductive
// order invariant over the whole list and are checked here instead, exhaustively within the bound:
// every sequence of up to N operations (Put, Remove, PopMin, PopMax, GetByRankRange(remove)) over 3 keys
// (including "") and 3 scores, each sequence under several math/rand seeds (node heights are random), and
// after every operation every query is compared with the model for every argument in a small grid.

import (
	"encoding/json"
	"fmt"
	"math/rand"
	"os"
	"sort"
	"testing"
)

type bs2Member struct {
	key   string
	score SCORE
	val   string
}

type bs2Model map[string]bs2Member

func (m bs2Model) sorted() []bs2Member {
	var out []bs2Member
	for _, x := range m {
		out = append(out, x)
	}
	sort.Slice(out, func(i, j int) bool {
		if out[i].score != out[j].score {
			return out[i].score < out[j].score
		}
		return out[i].key < out[j].key
	})
	return out
}

func bs2Keys(ns []*SortedSetNode) string {
	s := ""
	for _, n := range ns {
		if n == nil {
			s += "<nil>,"
			continue
		}
		s += fmt.Sprintf("%q:%v,", n.Key(), n.Score())
	}
	return s
}

func bs2Want(ms []bs2Member) string {
	s := ""
	for _, n := range ms {
		s += fmt.Sprintf("%q:%v,", n.key, n.score)
	}
	return s
}

func bs2RankSlice(all []bs2Member, start, end int) []bs2Member {
	n := len(all)
	norm := func(i int) int {
		if i < 0 {
			i = n + i + 1
		}
		if i <= 0 {
			i = 1
		}
		return i
	}
	s, e := norm(start), norm(end)
	rev := s > e
	if rev {
		s, e = e, s
	}
	var out []bs2Member
	for r := s; r <= e && r <= n; r++ {
		out = append(out, all[r-1])
	}
	if rev {
		for i, j := 0, len(out)-1; i < j; i, j = i+1, j-1 {
			out[i], out[j] = out[j], out[i]
		}
	}
	return out
}

func bs2ScoreRange(all []bs2Member, start, end SCORE, exS, exE bool, limit int) []bs2Member {
	rev := start > end
	lo, hi, exLo, exHi := start, end, exS, exE
	if rev {
		lo, hi, exLo, exHi = end, start, exE, exS
	}
	var out []bs2Member
	for _, m := range all {
		if m.score < lo || (exLo && m.score == lo) || m.score > hi || (exHi && m.score == hi) {
			continue
		}
		out = append(out, m)
	}
	if rev {
		for i, j := 0, len(out)-1; i < j; i, j = i+1, j-1 {
			out[i], out[j] = out[j], out[i]
		}
	}
	if limit > 0 && len(out) > limit {
		out = out[:limit]
	}
	return out
}

func bs2Check(t *testing.T, ss *SortedSet, m bs2Model, what string) bool {
	all := m.sorted()
	fail := func(f string, a ...interface{}) bool {
		t.Errorf("BS2 after %s: "+f, append([]interface{}{what}, a...)...)
		return false
	}
	if ss.Size() != len(all) || len(ss.Dict) != len(all) {
		return fail("Size=%d len(Dict)=%d, model %d", ss.Size(), len(ss.Dict), len(all))
	}
	for i, w := range all {
		n := ss.GetByKey(w.key)
		if n == nil || n.Key() != w.key || n.Score() != w.score || string(n.Value) != w.val {
			return fail("GetByKey(%q) = %v, model %v", w.key, n, w)
		}
		if r := ss.FindRank(w.key); r != i+1 {
			return fail("FindRank(%q) = %d, model %d", w.key, r, i+1)
		}
		if r := ss.FindRevRank(w.key); r != len(all)-i {
			return fail("FindRevRank(%q) = %d, model %d", w.key, r, len(all)-i)
		}
		if g := ss.GetByRank(i+1, false); g == nil || g.Key() != w.key {
			return fail("GetByRank(%d) = %v, model %q", i+1, g, w.key)
		}
	}
	for _, k := range []string{"", "a", "b", "zz"} {
		if _, ok := m[k]; !ok {
			if ss.GetByKey(k) != nil || ss.FindRank(k) != 0 || ss.FindRevRank(k) != 0 {
				return fail("absent key %q: GetByKey/FindRank/FindRevRank not all empty", k)
			}
		}
	}
	if mn := ss.PeekMin(); (len(all) == 0) != (mn == nil) || (mn != nil && mn.Key() != all[0].key) {
		return fail("PeekMin = %v, model %v", mn, all)
	}
	if mx := ss.PeekMax(); (len(all) == 0) != (mx == nil) || (mx != nil && mx.Key() != all[len(all)-1].key) {
		return fail("PeekMax = %v, model %v", mx, all)
	}
	for s := -5; s <= 5; s++ {
		for e := -5; e <= 5; e++ {
			got := bs2Keys(ss.GetByRankRange(s, e, false))
			if want := bs2Want(bs2RankSlice(all, s, e)); got != want {
				return fail("GetByRankRange(%d,%d) = %s, model %s", s, e, got, want)
			}
		}
	}
	scores := []SCORE{0, 1, 1.5, 2, 3, 4}
	for _, a := range scores {
		for _, b := range scores {
			for opt := 0; opt < 8; opt++ {
				o := &GetByScoreRangeOptions{ExcludeStart: opt&1 != 0, ExcludeEnd: opt&2 != 0}
				if opt&4 != 0 {
					o.Limit = 2
				}
				got := bs2Keys(ss.GetByScoreRange(a, b, o))
				want := bs2Want(bs2ScoreRange(all, a, b, o.ExcludeStart, o.ExcludeEnd, o.Limit))
				if a == b && len(all) > 0 {
					// equal bounds: the order among equal scores is the ascending one
				}
				if got != want {
					return fail("GetByScoreRange(%v,%v,%+v) = %s, model %s", a, b, *o, got, want)
				}
			}
		}
	}
	return true
}

type bs2Op struct {
	kind  int // 0 put 1 remove 2 popmin 3 popmax 4 remove rank range
	key   string
	score SCORE
	a, b  int
}

func (o bs2Op) String() string {
	switch o.kind {
	case 0:
		return fmt.Sprintf("Put(%q,%v)", o.key, o.score)
	case 1:
		return fmt.Sprintf("Remove(%q)", o.key)
	case 2:
		return "PopMin"
	case 3:
		return "PopMax"
	}
	return fmt.Sprintf("GetByRankRange(%d,%d,remove)", o.a, o.b)
}

func TestBS2SortedSet(t *testing.T) {
	maxOps, seeds := 3, 4
	if os.Getenv("VERIF_TIER") == "thorough" {
		maxOps, seeds = 4, 6
	}
	keys := []string{"", "a", "b"}
	scores := []SCORE{1, 2, 3}
	var ops []bs2Op
	for _, k := range keys {
		for _, s := range scores {
			ops = append(ops, bs2Op{kind: 0, key: k, score: s})
		}
		ops = append(ops, bs2Op{kind: 1, key: k})
	}
	ops = append(ops, bs2Op{kind: 2}, bs2Op{kind: 3}, bs2Op{kind: 4, a: 1, b: 1}, bs2Op{kind: 4, a: 2, b: -1}, bs2Op{kind: 4, a: -1, b: 1})
	cases, checks := 0, 0
	idx := make([]int, maxOps)
	var run func(depth int) bool
	run = func(depth int) bool {
		if depth > 0 {
			for seed := 0; seed < seeds; seed++ {
				rand.Seed(int64(seed*7919 + 1))
				ss := New()
				m := bs2Model{}
				what := ""
				for d := 0; d < depth; d++ {
					o := ops[idx[d]]
					what += o.String() + ";"
					switch o.kind {
					case 0:
						ss.Put(o.key, o.score, []byte(fmt.Sprint("v", d)))
						m[o.key] = bs2Member{o.key, o.score, fmt.Sprint("v", d)}
					case 1:
						got := ss.Remove(o.key)
						if _, ok := m[o.key]; ok != (got != nil) {
							t.Errorf("BS2 %s: Remove(%q) = %v, model has=%v", what, o.key, got, ok)
							return false
						}
						delete(m, o.key)
					case 2, 3:
						all := m.sorted()
						var got *SortedSetNode
						if o.kind == 2 {
							got = ss.PopMin()
						} else {
							got = ss.PopMax()
						}
						if len(all) == 0 {
							if got != nil {
								t.Errorf("BS2 %s: pop on empty set returned %v", what, got)
								return false
							}
						} else {
							w := all[0]
							if o.kind == 3 {
								w = all[len(all)-1]
							}
							if got == nil || got.Key() != w.key {
								t.Errorf("BS2 %s: pop returned %v, model %q", what, got, w.key)
								return false
							}
							delete(m, w.key)
						}
					case 4:
						all := m.sorted()
						want := bs2RankSlice(all, o.a, o.b)
						got := bs2Keys(ss.GetByRankRange(o.a, o.b, true))
						if got != bs2Want(want) {
							t.Errorf("BS2 %s: removed %s, model %s", what, got, bs2Want(want))
							return false
						}
						for _, w := range want {
							delete(m, w.key)
						}
					}
					if d == depth-1 {
						cases++
						checks++
						if !bs2Check(t, ss, m, what) {
							return false
						}
					}
				}
			}
		}
		if depth == maxOps {
			return true
		}
		for i := range ops {
			idx[depth] = i
			if !run(depth + 1) {
				return false
			}
		}
		return true
	}
	ok := run(0)
	if out := os.Getenv("GOVC_STANDIN_OUT"); out != "" {
		b, _ := json.Marshal(map[string]interface{}{"cases": cases, "checks": checks, "max_ops": maxOps, "seeds_per_sequence": seeds, "distinct_operations": len(ops), "passed": ok})
		os.WriteFile(out, b, 0o644)
	}
}
