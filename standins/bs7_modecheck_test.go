package nutsdb

// BS7 (bounded stand-in, NOT a proof): the refusal of C22 on real directories. checkEntryIdxMode and the order of
// Open's steps are under contract for every directory listing; this creates the directories the library itself
// produces (each of the three index modes, with and without a segment rotation, key/value data only and with a
// set) and reopens each with every other mode: sparse <-> RAM must return an error and leave the directory tree
// (names, sizes, modes of all files and sub-directories) unchanged; RAM <-> RAM must succeed with the same
// key/value contents. Its second role is the fall-back when a change takes Open out of the verified subset.

import (
	"encoding/json"
	"fmt"
	"io/ioutil"
	"os"
	fp "path/filepath"
	"sort"
	"testing"
)

func bs7Tree(dir string) string {
	var lines []string
	fp.Walk(dir, func(p string, info os.FileInfo, err error) error {
		if err != nil {
			lines = append(lines, p+": "+err.Error())
			return nil
		}
		rel, _ := fp.Rel(dir, p)
		sz := info.Size()
		if info.IsDir() {
			sz = 0
		}
		lines = append(lines, fmt.Sprintf("%s %v %d", rel, info.IsDir(), sz))
		return nil
	})
	sort.Strings(lines)
	return fmt.Sprint(lines)
}

func TestBS7ModeCheck(t *testing.T) {
	modes := []EntryIdxMode{HintKeyValAndRAMIdxMode, HintKeyAndRAMIdxMode, HintBPTSparseIdxMode}
	cases, passed := 0, true
	for _, writeMode := range modes {
		for _, nkeys := range []int{1, 12} { // 12 records of 60 bytes rotate a 256-byte segment several times
			for _, withSet := range []bool{false, true} {
				if withSet && writeMode != HintKeyValAndRAMIdxMode {
					continue
				}
				dir, err := ioutil.TempDir("", "govc-bs7")
				if err != nil {
					t.Fatal(err)
				}
				opt := DefaultOptions
				opt.Dir = dir
				opt.SegmentSize = 256
				opt.EntryIdxMode = writeMode
				db, err := Open(opt)
				if err != nil {
					t.Fatalf("BS7: Open: %v", err)
				}
				want := map[string]string{}
				for i := 0; i < nkeys; i++ {
					k, v := fmt.Sprintf("key%02d", i), fmt.Sprintf("val%07d", i)
					if err := db.Update(func(tx *Tx) error { return tx.Put("bk", []byte(k), []byte(v), Persistent) }); err != nil {
						t.Fatalf("BS7: Put: %v", err)
					}
					want[k] = v
				}
				if withSet {
					if err := db.Update(func(tx *Tx) error { return tx.SAdd("bs", []byte("s"), []byte("m")) }); err != nil {
						t.Fatalf("BS7: SAdd: %v", err)
					}
				}
				if err := db.Close(); err != nil {
					t.Fatalf("BS7: Close: %v", err)
				}
				for _, openMode := range modes {
					if openMode == writeMode || (withSet && openMode == HintKeyAndRAMIdxMode) {
						continue // sets are documented as supported in key-value mode only
					}
					cases++
					what := fmt.Sprintf("written in mode %d (%d keys, set %v), opened in mode %d", writeMode, nkeys, withSet, openMode)
					before := bs7Tree(dir)
					o2 := opt
					o2.EntryIdxMode = openMode
					db2, err := Open(o2)
					mismatch := (writeMode == HintBPTSparseIdxMode) != (openMode == HintBPTSparseIdxMode)
					if mismatch {
						if err == nil {
							t.Errorf("BS7 %s: Open succeeded", what)
							passed = false
							db2.Close()
						}
						if after := bs7Tree(dir); after != before {
							t.Errorf("BS7 %s: the directory changed:\n before %s\n after  %s", what, before, after)
							passed = false
						}
						continue
					}
					if err != nil {
						t.Errorf("BS7 %s: Open failed: %v", what, err)
						passed = false
						continue
					}
					_ = db2.View(func(tx *Tx) error {
						es, err := tx.GetAll("bk")
						if err != nil || len(es) != len(want) {
							t.Errorf("BS7 %s: GetAll returned %d entries (err %v), written %d", what, len(es), err, len(want))
							passed = false
							return nil
						}
						for _, e := range es {
							if want[string(e.Key)] != string(e.Value) {
								t.Errorf("BS7 %s: %s = %q, written %q", what, e.Key, e.Value, want[string(e.Key)])
								passed = false
							}
						}
						return nil
					})
					db2.Close()
				}
				os.RemoveAll(dir)
			}
		}
	}
	if out := os.Getenv("GOVC_STANDIN_OUT"); out != "" {
		b, _ := json.Marshal(map[string]interface{}{"cases": cases, "passed": passed})
		os.WriteFile(out, b, 0o644)
	}
}
