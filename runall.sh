#!/bin/sh
# Runs every claimed check sequentially (quick tier) and refreshes baseline-obligations.json. Development helper.
cd "$(dirname "$0")"
props="$@"; [ -n "$props" ] || props=$(python3 -c "import json;print(' '.join(c['property_id'] for c in json.load(open('MANIFEST.json'))['checks']))")
for p in $props; do
  GOVC_WRITE_BASELINE=1 ./check $p quick > /tmp/runall.$p.log 2>&1; rc=$?
  echo "== $p exit=$rc: $(grep -c '^KNOWN-FINDING' /tmp/runall.$p.log) known; $(tail -1 /tmp/runall.$p.log)"
  grep '^VIOLATION\|^UNDECIDED\|^ENGINE' /tmp/runall.$p.log | grep -v "of the baseline was not generated" | cut -c1-300
  rm -f /tmp/runall.$p.log
done
