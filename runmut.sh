#!/bin/sh
# usage: runmut.sh <seeded-dir-name> <property> : apply the seeded change to /repo, run the quick check, undo it
d=/verif/seeded/$1
if [ -n "$(git -C /repo status --porcelain)" ]; then echo "refusing: /repo has uncommitted changes"; exit 3; fi
git -C /repo apply $d/patch.diff || exit 3
/verif/check $2 quick 2>&1 | grep -v "^KNOWN-FINDING" | cut -c1-260
git -C /repo checkout -- .
