package main

// Evaluation of spec expressions over symbolic states.

import (
	"fmt"
	"go/constant"
	"go/token"
	"go/types"
	"math/big"
	"strconv"
	"strings"

	"golang.org/x/tools/go/ssa"
)

type SpecEnv struct {
	eng      *Engine
	pkg      string
	pkgScope *types.Package
	cur      *State
	old      *State
	vars     map[string]Val
	fr       *Frame
	entry    map[string]Val // entry values of parameters (for old(x) inside bodies)
	loopPre  *State         // state before the loop whose invariant is being evaluated
	depth    int
}

type specError struct{ msg string }

func (e specError) Error() string { return "spec: " + e.msg }

func sfail(format string, a ...interface{}) {
	panic(specError{fmt.Sprintf(format, a...)})
}

func (env *SpecEnv) with(cur *State) *SpecEnv {
	n := *env
	n.cur = cur
	return &n
}

func (env *SpecEnv) bind(name string, v Val) *SpecEnv {
	n := *env
	n.vars = map[string]Val{}
	for k, x := range env.vars {
		n.vars[k] = x
	}
	n.vars[name] = v
	return &n
}

func (env *SpecEnv) evalBool(e *SExpr) *Term {
	v := env.eval(e)
	if v.K != KScalar || v.S.sort != SBool {
		sfail("expected boolean: %s", e)
	}
	return v.S
}

func (env *SpecEnv) evalInt(e *SExpr) *Term {
	v := env.eval(e)
	if v.K != KScalar || (v.S.sort != SInt && v.S.sort != SReal) {
		sfail("expected number: %s", e)
	}
	return v.S
}

func (env *SpecEnv) resolveType(s string) types.Type {
	s = strings.TrimSpace(s)
	if env.pkgScope == nil {
		sfail("no package scope to resolve type %s", s)
	}
	switch {
	case strings.HasPrefix(s, "*"):
		return types.NewPointer(env.resolveType(s[1:]))
	case strings.HasPrefix(s, "[]"):
		return types.NewSlice(env.resolveType(s[2:]))
	}
	if i := strings.Index(s, "."); i > 0 && !strings.ContainsAny(s, "[]() ") {
		// qualified name: look the package up among the imports (or all loaded packages)
		q, n := s[:i], s[i+1:]
		for _, imp := range env.pkgScope.Imports() {
			if imp.Name() == q {
				if obj := imp.Scope().Lookup(n); obj != nil {
					return obj.Type()
				}
			}
		}
		for _, p := range env.eng.tpkgs {
			if p.Name() == q {
				if obj := p.Scope().Lookup(n); obj != nil {
					return obj.Type()
				}
			}
		}
	}
	tv, err := types.Eval(env.eng.fset, env.pkgScope, token.NoPos, s)
	if err != nil {
		// allow qualified names of module packages: list.List
		sfail("cannot resolve type %q: %v", s, err)
	}
	return tv.Type
}

func (env *SpecEnv) eval(e *SExpr) Val {
	bt := types.Typ[types.Bool]
	it := types.Typ[types.Int]
	switch e.Op {
	case "lit":
		switch e.Vars[0] {
		case "int":
			n, ok := new(big.Int).SetString(e.Tok, 0)
			if !ok {
				sfail("bad integer %s", e.Tok)
			}
			return scalar(BigLit(n), types.Typ[types.UntypedInt])
		case "bool":
			return scalar(BoolLit(e.Tok == "true"), bt)
		case "nil":
			return scalar(IntLit(0), types.Typ[types.UntypedNil])
		case "str":
			return scalar(StrLit(e.Tok), types.Typ[types.String])
		}
	case "id":
		return env.lookup(e.Tok)
	case "un":
		v := env.eval(e.Args[0])
		switch e.Tok {
		case "!":
			return scalar(Not(v.S), bt)
		case "-":
			return scalar(Neg(v.S), v.T)
		}
	case "bin":
		switch e.Tok {
		case "&&":
			return scalar(And(env.evalBool(e.Args[0]), env.evalBool(e.Args[1])), bt)
		case "||":
			return scalar(Or(env.evalBool(e.Args[0]), env.evalBool(e.Args[1])), bt)
		case "==>":
			return scalar(Implies(env.evalBool(e.Args[0]), env.evalBool(e.Args[1])), bt)
		case "<==>":
			return scalar(Iff(env.evalBool(e.Args[0]), env.evalBool(e.Args[1])), bt)
		case "==":
			return scalar(eqVal(env.eval(e.Args[0]), env.eval(e.Args[1])), bt)
		case "!=":
			return scalar(Not(eqVal(env.eval(e.Args[0]), env.eval(e.Args[1]))), bt)
		}
		a, b := env.eval(e.Args[0]), env.eval(e.Args[1])
		if a.K != KScalar || b.K != KScalar {
			sfail("operator %s on composite values in %s", e.Tok, e)
		}
		rt := a.T
		if rt == nil || rt == types.Typ[types.UntypedInt] {
			rt = b.T
		}
		if a.S.sort == SStr && b.S.sort == SStr {
			switch e.Tok {
			case "+":
				return scalar(Sconcat(a.S, b.S), a.T)
			case "<":
				return scalar(Lt(StrRank(a.S), StrRank(b.S)), bt)
			case "<=":
				return scalar(Le(StrRank(a.S), StrRank(b.S)), bt)
			case ">":
				return scalar(Gt(StrRank(a.S), StrRank(b.S)), bt)
			case ">=":
				return scalar(Ge(StrRank(a.S), StrRank(b.S)), bt)
			}
		}
		switch e.Tok {
		case "<":
			return scalar(Lt(a.S, b.S), bt)
		case "<=":
			return scalar(Le(a.S, b.S), bt)
		case ">":
			return scalar(Gt(a.S, b.S), bt)
		case ">=":
			return scalar(Ge(a.S, b.S), bt)
		case "+":
			return scalar(Add(a.S, b.S), rt)
		case "-":
			return scalar(Sub(a.S, b.S), rt)
		case "*":
			return scalar(Mul(a.S, b.S), rt)
		case "/":
			return scalar(DivT(a.S, b.S), rt)
		case "%":
			return scalar(RemT(a.S, b.S), rt)
		}
	case "cond":
		c := env.evalBool(e.Args[0])
		return iteVal(c, env.eval(e.Args[1]), env.eval(e.Args[2]))
	case "field":
		// package-qualified identifier?
		if e.Args[0].Op == "id" {
			if v, ok := env.qualified(e.Args[0].Tok, e.Tok); ok {
				return v
			}
		}
		return env.field(env.eval(e.Args[0]), e.Tok, e)
	case "index":
		base := env.eval(e.Args[0])
		idx := env.eval(e.Args[1])
		return env.index(base, idx, e)
	case "slice":
		base := env.eval(e.Args[0])
		if base.K != KSlice {
			if base.K == KScalar && base.S.sort == SStr {
				lo, hi := IntLit(0), Slen(base.S)
				if e.Args[1] != nil {
					lo = env.evalInt(e.Args[1])
				}
				if e.Args[2] != nil {
					hi = env.evalInt(e.Args[2])
				}
				DeclareFun("ssub", []Sort{SStr, SInt, SInt}, SStr)
				return scalar(App("ssub", SStr, base.S, lo, hi), base.T)
			}
			sfail("slice expression on non-slice %s", e)
		}
		lo, hi := IntLit(0), base.F[2].S
		if e.Args[1] != nil {
			lo = env.evalInt(e.Args[1])
		}
		if e.Args[2] != nil {
			hi = env.evalInt(e.Args[2])
		}
		return Val{K: KSlice, T: base.T, F: []Val{base.F[0], scalar(Add(base.F[1].S, lo), it), scalar(Sub(hi, lo), it), scalar(Sub(base.F[3].S, lo), it)}}
	case "call":
		return env.call(e)
	case "forall", "exists":
		n := env
		var bvs []*Term
		var guards []*Term
		for i, name := range e.Vars {
			t := env.resolveType(e.Types[i])
			ls := shapeOf(t)
			if len(ls) != 1 {
				sfail("quantified variable %s of composite type %s", name, e.Types[i])
			}
			bname := name
			if isRefType(t) {
				bname = "ref$" + name // pre-instantiation offers only reference-valued constants for it
			}
			bv := Bound(bname, ls[0].sort)
			bvs = append(bvs, bv)
			v := scalar(bv, t)
			if _, _, ok := intRange(t); ok {
				guards = append(guards, inRange(bv, t))
			}
			if et, _ := derefStruct(t); et != nil && mentionsAllocated(e.Args[0], name) {
				// a quantified pointer that the body restricts by allocated(v) ranges over the allocated
				// objects of its own type (the allocation map is untyped; rtag gives the type)
				guards = append(guards, Or(Eq(bv, IntLit(0)), Eq(RefTag(bv), tagOfStruct(et))))
			}
			n = n.bind(name, v)
		}
		body := n.evalBool(e.Args[0])
		if e.Op == "forall" {
			return scalar(Forall(bvs, Implies(And(guards...), body)), bt)
		}
		return scalar(Exists(bvs, And(And(guards...), body)), bt)
	}
	sfail("cannot evaluate %s", e)
	return Val{}
}

func (env *SpecEnv) lookup(name string) Val {
	if v, ok := env.vars[name]; ok {
		return v
	}
	if env.fr != nil {
		if cell, ok := env.fr.cellName[name]; ok {
			if v, ok := env.cur.cells[cell]; ok {
				return v
			}
			// not live at this point: an arbitrary value (facts about it can only hold vacuously)
			et := cell.Type().(*types.Pointer).Elem()
			return freshVal("dead_"+name, et)
		}
	}
	if name == "clock" {
		return scalar(Sym("clock$now", SInt), types.Typ[types.Int64])
	}
	if g, ok := env.eng.contracts.Ghosts[name]; ok {
		t := env.resolveGhostType(g)
		return env.cur.load(&Addr{Kind: AGlobal, Key: "ghost:" + name, T: t})
	}
	if env.pkgScope != nil {
		if obj := env.pkgScope.Scope().Lookup(name); obj != nil {
			return env.object(obj)
		}
		if obj := types.Universe.Lookup(name); obj != nil {
			if c, ok := obj.(*types.Const); ok {
				return constToVal(c.Val(), c.Type())
			}
		}
	}
	sfail("unknown identifier %s", name)
	return Val{}
}

func (env *SpecEnv) resolveGhostType(g *GhostVar) types.Type {
	e2 := *env
	e2.pkgScope = env.eng.typesPkg(g.Pkg)
	return e2.resolveType(g.Type)
}

func (env *SpecEnv) object(obj types.Object) Val {
	switch o := obj.(type) {
	case *types.Const:
		return constToVal(o.Val(), o.Type())
	case *types.Var:
		key := "G:" + o.Pkg().Name() + "." + o.Name()
		if v, ok := env.eng.sentinels[key]; ok {
			return v
		}
		return env.cur.load(&Addr{Kind: AGlobal, Key: key, T: o.Type()})
	}
	sfail("identifier %s is not a constant or variable", obj.Name())
	return Val{}
}

func constToVal(v constant.Value, t types.Type) Val {
	switch v.Kind() {
	case constant.Bool:
		return scalar(BoolLit(constant.BoolVal(v)), t)
	case constant.String:
		return scalar(StrLit(constant.StringVal(v)), t)
	case constant.Int:
		return scalar(bigOf(v), t)
	case constant.Float:
		f, _ := constant.Float64Val(v)
		return scalar(RealLit(strconv.FormatFloat(f, 'f', -1, 64)), t)
	}
	sfail("constant kind")
	return Val{}
}

func (env *SpecEnv) qualified(pkgName, name string) (Val, bool) {
	if env.pkgScope == nil {
		return Val{}, false
	}
	if _, isVar := env.vars[pkgName]; isVar {
		return Val{}, false
	}
	if env.fr != nil {
		if _, isCell := env.fr.cellName[pkgName]; isCell {
			return Val{}, false
		}
	}
	for _, imp := range env.pkgScope.Imports() {
		if imp.Name() == pkgName {
			if obj := imp.Scope().Lookup(name); obj != nil {
				return env.object(obj), true
			}
		}
	}
	return Val{}, false
}

func (env *SpecEnv) field(base Val, name string, e *SExpr) Val {
	switch base.K {
	case KStruct:
		st := base.T.Underlying().(*types.Struct)
		for i := 0; i < st.NumFields(); i++ {
			if st.Field(i).Name() == name {
				return base.F[i]
			}
		}
		sfail("no field %s in %s", name, base.T)
	case KScalar:
		if base.T == nil {
			sfail("field %s of untyped value in %s", name, e)
		}
		et, st := derefStruct(base.T)
		if st == nil {
			sfail("field %s of non-struct pointer %s in %s", name, base.T, e)
		}
		for i := 0; i < st.NumFields(); i++ {
			if st.Field(i).Name() == name {
				return env.cur.load(&Addr{Kind: AField, Ref: base.S, Key: fieldKey(et, "") + "." + name, T: st.Field(i).Type()})
			}
		}
		sfail("no field %s in %s", name, et)
	}
	sfail("field %s of value kind %d in %s", name, base.K, e)
	return Val{}
}

func (env *SpecEnv) index(base, idx Val, e *SExpr) Val {
	switch base.K {
	case KSlice:
		et := base.T.Underlying().(*types.Slice).Elem()
		return env.cur.load(&Addr{Kind: AElem, Arr: base.F[0].S, Idx: Add(base.F[1].S, idx.S), Key: elemKey(et), T: et})
	case KScalar:
		if base.S.sort == SStr {
			return scalar(Sat(base.S, idx.S), byteType)
		}
		if base.T != nil {
			if _, ok := base.T.Underlying().(*types.Map); ok {
				mi := mapInfoOf(base.T)
				return mapGet(env.cur, mi, base.S, idx.S)
			}
			if p, ok := base.T.Underlying().(*types.Pointer); ok {
				if at, ok := p.Elem().Underlying().(*types.Array); ok {
					return env.cur.load(&Addr{Kind: AElem, Arr: base.S, Idx: idx.S, Key: elemKey(at.Elem()), T: at.Elem()})
				}
			}
			if at, ok := base.T.Underlying().(*types.Array); ok {
				return env.cur.load(&Addr{Kind: AElem, Arr: base.S, Idx: idx.S, Key: elemKey(at.Elem()), T: at.Elem()})
			}
		}
		if base.S.sort != SInt && base.S.sort != SBool && base.S.sort != SReal {
			// raw array term (e.g. visited set)
			return scalar(Select(base.S, idx.S), nil)
		}
	}
	sfail("cannot index %s", e)
	return Val{}
}

func (env *SpecEnv) call(e *SExpr) Val {
	bt := types.Typ[types.Bool]
	it := types.Typ[types.Int]
	fn := e.Args[0]
	args := e.Args[1:]
	if fn.Op == "field" && fn.Args[0].Op == "id" {
		// pkg.SpecFunc(...)
		if sf := env.eng.lookupSpecFunc(fn.Args[0].Tok, fn.Tok, env.pkg); sf != nil {
			return env.applySpecFunc(sf, args)
		}
	}
	if fn.Op != "id" {
		sfail("call of non-identifier in %s", e)
	}
	name := fn.Tok
	need := func(n int) {
		if len(args) != n {
			sfail("%s expects %d arguments in %s", name, n, e)
		}
	}
	switch name {
	case "old":
		need(1)
		if env.old == nil {
			sfail("old() used where no pre-state exists: %s", e)
		}
		n := *env
		n.cur = env.old
		if env.entry != nil {
			n.vars = map[string]Val{}
			for k, v := range env.vars {
				n.vars[k] = v
			}
			for k, v := range env.entry {
				n.vars[k] = v
			}
			n.fr = nil
		}
		return n.eval(args[0])
	case "len":
		need(1)
		v := env.eval(args[0])
		switch v.K {
		case KSlice:
			return scalar(v.F[2].S, it)
		case KScalar:
			if v.S.sort == SStr {
				return scalar(Slen(v.S), it)
			}
			if v.T != nil {
				if _, ok := v.T.Underlying().(*types.Map); ok {
					return scalar(mapLen(env.cur, mapInfoOf(v.T), v.S), it)
				}
			}
		}
		sfail("len of %s", args[0])
	case "cap":
		need(1)
		v := env.eval(args[0])
		return scalar(v.F[3].S, it)
	case "string":
		need(1)
		v := env.eval(args[0])
		if v.K == KSlice {
			return scalar(bytesToString(v, env.cur), types.Typ[types.String])
		}
		if v.K == KScalar && v.S.sort == SStr {
			return v
		}
		sfail("string() of %s", args[0])
	case "has":
		need(2)
		m := env.eval(args[0])
		k := env.eval(args[1])
		if m.T == nil {
			sfail("has() on untyped map")
		}
		return scalar(mapHas(env.cur, mapInfoOf(m.T), m.S, k.S), bt)
	case "fresh":
		need(1)
		if env.old == nil {
			sfail("fresh() needs a pre-state")
		}
		v := env.eval(args[0])
		switch v.K {
		case KScalar:
			return scalar(And(Neq(v.S, IntLit(0)), Not(Select(env.old.H(allocKey, allocSort), v.S))), bt)
		case KSlice:
			return scalar(Or(Eq(v.F[0].S, IntLit(0)), Not(Select(env.old.H(allocAKey, allocSort), v.F[0].S))), bt)
		}
		sfail("fresh() of %s", args[0])
	case "unchanged":
		// unchanged(m): the entries of map m are exactly those of the pre-state (raw rows)
		need(1)
		if env.old == nil {
			sfail("unchanged() needs a pre-state")
		}
		v := env.eval(args[0])
		if v.K != KScalar || v.T == nil {
			sfail("unchanged() of %s", args[0])
		}
		if _, ok := v.T.Underlying().(*types.Map); !ok {
			sfail("unchanged() expects a map: %s", args[0])
		}
		var cs []*Term
		for _, lk := range (modLoc{kind: "map", ref: v.S, T: v.T}).keys() {
			cs = append(cs, Eq(Select(env.cur.H(lk.key, lk.sort), v.S), Select(env.old.H(lk.key, lk.sort), v.S)))
		}
		return scalar(And(cs...), bt)
	case "same":
		// same(loc): the modifies-style location loc (x.f, elems(s), entries(m), all(T.f), alltype(T), allelems(e),
		// allentries(e)) holds exactly what it held in the pre-state. Lets a contract give a conditional frame
		// ("!remove ==> same(...)") for locations its modifies clause has to list unconditionally.
		need(1)
		if env.old == nil {
			sfail("same() needs a pre-state")
		}
		var cs []*Term
		for _, l := range env.evalModLoc(args[0]) {
			if l.kind == "everything" {
				sfail("same(everything) is not supported")
			}
			for _, lk := range l.keys() {
				cur, old := env.cur.H(lk.key, lk.sort), env.old.H(lk.key, lk.sort)
				if l.whole() {
					cs = append(cs, Eq(cur, old))
				} else {
					cs = append(cs, Eq(Select(cur, l.ref), Select(old, l.ref)))
				}
			}
		}
		return scalar(And(cs...), bt)
	case "pre":
		// value of an expression when the enclosing loop was entered
		need(1)
		if env.loopPre == nil {
			sfail("pre() used outside a loop invariant")
		}
		n := *env
		n.cur = env.loopPre
		return n.eval(args[0])
	case "sinceLoop":
		// allocated after the enclosing loop was entered (or nil)
		need(1)
		if env.loopPre == nil {
			sfail("sinceLoop() used outside a loop invariant")
		}
		v := env.eval(args[0])
		switch v.K {
		case KScalar:
			return scalar(Or(Eq(v.S, IntLit(0)), Not(Select(env.loopPre.H(allocKey, allocSort), v.S))), bt)
		case KSlice:
			return scalar(Or(Eq(v.F[0].S, IntLit(0)), Not(Select(env.loopPre.H(allocAKey, allocSort), v.F[0].S))), bt)
		}
		sfail("sinceLoop() of %s", args[0])
	case "allocated":
		need(1)
		v := env.eval(args[0])
		if v.K == KSlice {
			return scalar(Or(Eq(v.F[0].S, IntLit(0)), Select(env.cur.H(allocAKey, allocSort), v.F[0].S)), bt)
		}
		return scalar(Select(env.cur.H(allocKey, allocSort), v.S), bt)
	case "arr":
		need(1)
		v := env.eval(args[0])
		return scalar(v.F[0].S, it)
	case "off":
		need(1)
		v := env.eval(args[0])
		return scalar(v.F[1].S, it)
	case "isnil":
		need(1)
		v := env.eval(args[0])
		return scalar(eqVal(v, scalar(IntLit(0), types.Typ[types.UntypedNil])), bt)
	case "min", "max":
		need(2)
		a, b := env.evalInt(args[0]), env.evalInt(args[1])
		if name == "min" {
			return scalar(Ite(Le(a, b), a, b), it)
		}
		return scalar(Ite(Ge(a, b), a, b), it)
	case "cmp":
		need(2)
		a, b := env.strOf(args[0]), env.strOf(args[1])
		return scalar(Ite(StrEq(a, b), IntLit(0), Ite(Lt(StrRank(a), StrRank(b)), IntLit(-1), IntLit(1))), it)
	case "concat":
		need(2)
		return scalar(Sconcat(env.strOf(args[0]), env.strOf(args[1])), types.Typ[types.String])
	case "hasPrefix":
		need(2)
		return scalar(HasPrefixS(env.strOf(args[0]), env.strOf(args[1])), bt)
	case "typeis":
		// typeis(x, T): dynamic type of interface value
		need(2)
		v := env.eval(args[0])
		t := env.resolveType(args[1].String())
		if _, isStruct := t.Underlying().(*types.Struct); isStruct {
			t = types.NewPointer(t) // typeis(x, Record): x holds a *Record (as for ifaceval)
		}
		return scalar(Eq(v.F[0].S, IntLit(int64(env.eng.typeID(t)))), bt)
	case "ifaceval":
		need(2)
		v := env.eval(args[0])
		t := env.resolveType(args[1].String())
		if _, isStruct := t.Underlying().(*types.Struct); isStruct {
			t = types.NewPointer(t) // ifaceval(x, Record) reads the *Record held by x
		}
		return scalar(v.F[1].S, t)
	case "int", "int64", "uint64", "uint32", "uint16", "int32", "uint8", "uint":
		need(1)
		v := env.eval(args[0])
		return scalar(v.S, env.resolveType(name))
	case "float":
		need(1)
		v := env.eval(args[0])
		return scalar(ToReal(v.S), types.Typ[types.Float64])
	case "le16", "le32", "le64":
		need(2)
		b := env.eval(args[0])
		o := env.evalInt(args[1])
		n := map[string]int{"le16": 2, "le32": 4, "le64": 8}[name]
		row := Select(byteHeap(env.cur), b.F[0].S)
		return scalar(leDecode(n, row, Add(b.F[1].S, o)), types.Typ[types.Uint64])
	case "crcUpd":
		need(2)
		return scalar(App("crcUpd", SInt, env.evalInt(args[0]), env.strOf(args[1])), types.Typ[types.Uint32])
	case "byteOf":
		need(2)
		return scalar(App("byteOf", SInt, env.evalInt(args[0]), env.evalInt(args[1])), byteType)
	case "visitedAll":
		sfail("visitedAll not supported")
	}
	if sf := env.eng.lookupSpecFunc("", name, env.pkg); sf != nil {
		return env.applySpecFunc(sf, args)
	}
	sfail("unknown function %s in %s", name, e)
	return Val{}
}

func (env *SpecEnv) strOf(e *SExpr) *Term {
	v := env.eval(e)
	if v.K == KSlice {
		return bytesToString(v, env.cur)
	}
	if v.K == KScalar && v.S.sort == SStr {
		return v.S
	}
	sfail("expected string or []byte: %s", e)
	return nil
}

func (env *SpecEnv) applySpecFunc(sf *SpecFunc, args []*SExpr) Val {
	if len(args) != len(sf.Params) {
		sfail("spec func %s expects %d arguments", sf.Name, len(sf.Params))
	}
	if env.depth > 20 {
		sfail("spec func recursion too deep at %s", sf.Name)
	}
	vals := make([]Val, len(args))
	for i, a := range args {
		vals[i] = env.eval(a)
	}
	defEnv := *env
	defEnv.pkg = sf.Pkg
	defEnv.pkgScope = env.eng.typesPkg(sf.Pkg)
	if sf.Body == nil {
		// uninterpreted function over scalars
		var sorts []Sort
		var ts []*Term
		for i, v := range vals {
			pt := defEnv.resolveType(sf.PTypes[i])
			if isByteSlice(pt) && v.K == KSlice {
				ts = append(ts, bytesToString(v, env.cur))
				sorts = append(sorts, SStr)
				continue
			}
			fl := flatten(v)
			if len(fl) != 1 {
				sfail("uninterpreted spec func %s: composite argument", sf.Name)
			}
			ts = append(ts, fl[0])
			sorts = append(sorts, fl[0].sort)
		}
		rt := defEnv.resolveType(sf.RType)
		rs := shapeOf(rt)
		if len(rs) != 1 {
			sfail("uninterpreted spec func %s: composite result", sf.Name)
		}
		fname := "sf$" + sf.Name
		DeclareFun(fname, sorts, rs[0].sort)
		return scalar(App(fname, rs[0].sort, ts...), rt)
	}
	n := defEnv
	n.vars = map[string]Val{}
	for i, p := range sf.Params {
		v := vals[i]
		if v.T == nil || v.T == types.Typ[types.UntypedNil] || v.T == types.Typ[types.UntypedInt] {
			v.T = defEnv.resolveType(sf.PTypes[i])
			v = coerce(v, v.T)
		}
		n.vars[p] = v
	}
	n.fr = nil
	n.depth = env.depth + 1
	return n.eval(sf.Body)
}

// ---------- modifies locations

type modLoc struct {
	kind string // field elems map global allkey everything
	key  string
	ref  *Term
	T    types.Type
	text string
}

func (env *SpecEnv) evalModLocs(cs []Clause) []modLoc {
	var out []modLoc
	for _, c := range cs {
		out = append(out, env.evalModLoc(c.Expr)...)
	}
	return out
}

func (env *SpecEnv) evalModLoc(e *SExpr) []modLoc {
	switch e.Op {
	case "id":
		if e.Tok == "everything" {
			return []modLoc{{kind: "everything", text: "everything"}}
		}
		if g, ok := env.eng.contracts.Ghosts[e.Tok]; ok {
			return []modLoc{{kind: "global", key: "ghost:" + e.Tok, T: env.resolveGhostType(g), text: e.Tok}}
		}
		if env.pkgScope != nil {
			if obj, ok := env.pkgScope.Scope().Lookup(e.Tok).(*types.Var); ok {
				return []modLoc{{kind: "global", key: "G:" + obj.Pkg().Name() + "." + obj.Name(), T: obj.Type(), text: e.Tok}}
			}
		}
	case "field":
		base := env.eval(e.Args[0])
		if base.K == KScalar && base.T != nil {
			et, st := derefStruct(base.T)
			if st != nil {
				for i := 0; i < st.NumFields(); i++ {
					if st.Field(i).Name() == e.Tok {
						return []modLoc{{kind: "field", key: fieldKey(et, "") + "." + e.Tok, ref: base.S, T: st.Field(i).Type(), text: e.String()}}
					}
				}
			}
		}
	case "call":
		if e.Args[0].Op == "id" {
			switch e.Args[0].Tok {
			case "elems":
				v := env.eval(e.Args[1])
				if v.K == KSlice {
					return []modLoc{{kind: "elems", ref: v.F[0].S, T: v.T.Underlying().(*types.Slice).Elem(), text: e.String()}}
				}
				if v.K == KScalar && v.T != nil {
					// a local array variable: its row in the element heap
					if at, ok := v.T.Underlying().(*types.Array); ok {
						return []modLoc{{kind: "elems", ref: v.S, T: at.Elem(), text: e.String()}}
					}
				}
			case "entries":
				v := env.eval(e.Args[1])
				if v.K == KScalar && v.T != nil {
					if _, ok := v.T.Underlying().(*types.Map); ok {
						return []modLoc{{kind: "map", ref: v.S, T: v.T, text: e.String()}}
					}
				}
			case "fields":
				v := env.eval(e.Args[1])
				et, _ := derefStruct(v.T)
				if et != nil {
					return []modLoc{{kind: "field", key: fieldKey(et, ""), ref: v.S, T: et, text: e.String()}}
				}
			case "all":
				// all(Type.field): the field of every object
				a := e.Args[1]
				tname := ""
				if a.Op == "field" && a.Args[0].Op == "id" {
					tname = a.Args[0].Tok
				} else if a.Op == "field" && a.Args[0].Op == "field" && a.Args[0].Args[0].Op == "id" {
					tname = a.Args[0].Args[0].Tok + "." + a.Args[0].Tok // pkg.Type.field
				}
				if tname != "" {
					t := env.resolveType(tname)
					if st, ok := t.Underlying().(*types.Struct); ok {
						for i := 0; i < st.NumFields(); i++ {
							if st.Field(i).Name() == a.Tok {
								return []modLoc{{kind: "allkey", key: fieldKey(t, "") + "." + a.Tok, T: st.Field(i).Type(), text: e.String()}}
							}
						}
					}
				}
			case "alltype":
				// alltype(T): every field of every object of struct type T
				t := env.resolveType(e.Args[1].String())
				if _, ok := t.Underlying().(*types.Struct); ok {
					return []modLoc{{kind: "allkey", key: fieldKey(t, ""), T: t, text: e.String()}}
				}
			case "allelems":
				// allelems(T): the elements of every slice with element type T; allelems(expr) with a
				// slice-typed expression: the elements of every slice of that expression's type
				if a := e.Args[1]; a.Op != "id" {
					if v := env.eval(a); v.T != nil {
						if sl, ok := v.T.Underlying().(*types.Slice); ok {
							return []modLoc{{kind: "allelems", T: sl.Elem(), text: e.String()}}
						}
					}
				}
				t := env.resolveType(e.Args[1].String())
				return []modLoc{{kind: "allelems", T: t, text: e.String()}}
			case "allentries":
				// allentries(T) / allentries(expr): the entries of every map of type T (of the expression's type)
				if a := e.Args[1]; a.Op != "id" {
					if v := env.eval(a); v.T != nil {
						if _, ok := v.T.Underlying().(*types.Map); ok {
							return []modLoc{{kind: "allmap", T: v.T, text: e.String()}}
						}
					}
				}
				t := env.resolveType(e.Args[1].String())
				return []modLoc{{kind: "allmap", T: t, text: e.String()}}
			}
		}
	}
	sfail("unsupported modifies location %s", e)
	return nil
}

// leafKeys enumerates the heap keys (and their sorts) a location covers.
type locKey struct {
	key  string
	sort Sort // sort of the whole heap array
	lvl  int  // 0 scalar global, 1 ref-indexed, 2 row-indexed (two-level)
	row  Sort
}

func (l modLoc) keys() []locKey {
	var out []locKey
	switch l.kind {
	case "field", "allkey":
		for _, lf := range shapeOf(l.T) {
			out = append(out, locKey{l.key + lf.suffix, ArrSort(SInt, lf.sort), 1, lf.sort})
		}
	case "elems", "allelems":
		for _, lf := range shapeOf(l.T) {
			out = append(out, locKey{elemKey(l.T) + lf.suffix, ArrSort(SInt, ArrSort(SInt, lf.sort)), 2, ArrSort(SInt, lf.sort)})
		}
	case "map", "allmap":
		mi := mapInfoOf(l.T)
		out = append(out, locKey{mi.key + ".dom", ArrSort(SInt, ArrSort(mi.ks, SBool)), 2, ArrSort(mi.ks, SBool)})
		out = append(out, locKey{mi.key + ".card", ArrSort(SInt, SInt), 1, SInt})
		for _, lf := range mi.leaves {
			out = append(out, locKey{mi.key + ".val" + lf.suffix, ArrSort(SInt, ArrSort(mi.ks, lf.sort)), 2, ArrSort(mi.ks, lf.sort)})
		}
	case "global":
		for _, lf := range shapeOf(l.T) {
			out = append(out, locKey{l.key + lf.suffix, lf.sort, 0, lf.sort})
		}
	}
	return out
}

func (l modLoc) whole() bool {
	return l.kind == "allkey" || l.kind == "allelems" || l.kind == "allmap" || l.kind == "global"
}

var _ = ssa.NaiveForm
