package main

// Property checks: obligation closure, discharge, known findings, violations, evidence.

import (
	"encoding/json"
	"fmt"
	"os"
	"path/filepath"
	"regexp"
	"sort"
	"strconv"
	"strings"
	"time"
)

type KnownFinding struct {
	Properties []string `json:"properties"`
	Obligation string   `json:"obligation"`
	What       string   `json:"what"`
	Input      string   `json:"input"`
	Replay     string   `json:"replay,omitempty"`
}

type KnownFindings struct {
	Findings []KnownFinding `json:"findings"`
	Fixed    []string       `json:"fixed"`
}

type PropertyConfig struct {
	Level       string   `json:"level"`        // proof | other
	Explanation string   `json:"explanation"`  // for level other
	Unverified  []string `json:"unverified"`   // stated gaps
	Standins    []string `json:"standins"`     // bounded stand-in test names
	Extra       []string `json:"extra_funcs"`  // functions included although not tagged
}

func verifDir() string {
	if d := os.Getenv("GOVC_VERIF"); d != "" {
		return d
	}
	exe, err := os.Executable()
	if err == nil {
		return filepath.Dir(filepath.Dir(exe))
	}
	return "/verif"
}

func loadJSON(path string, v interface{}) error {
	b, err := os.ReadFile(path)
	if err != nil {
		return err
	}
	return json.Unmarshal(b, v)
}

func hasTag(tags []string, p string) bool {
	for _, t := range tags {
		if t == p {
			return true
		}
	}
	return false
}

type checkResult struct {
	prop        string
	tier        string
	funcs       []string
	closure     []string
	obligs      []*Oblig
	undecided   []string
	canaries    int
	vacuous     []string
	assumptions map[string]bool
	inlined     map[string]bool
}

func runCheck(repo, prop, tier string, rest []string) int {
	t0 := time.Now()
	vdir := verifDir()
	seed := 0
	if s := os.Getenv("VERIF_SEED"); s != "" {
		seed, _ = strconv.Atoi(s)
	}
	timeout := 30
	if tier == "thorough" {
		timeout = 90
	}
	var kf KnownFindings
	_ = loadJSON(filepath.Join(vdir, "known-findings.json"), &kf)
	props := map[string]PropertyConfig{}
	_ = loadJSON(filepath.Join(vdir, "properties-config.json"), &props)
	pcfg := props[prop]
	if pcfg.Level == "" {
		pcfg.Level = "proof"
	}

	e, err := LoadEngine(repo)
	if err != nil {
		fmt.Printf("ENGINE-ERROR property=%s cannot load /repo: %v\n", prop, err)
		// a tree that does not build is not a property violation; report and fail the check run
		return 2
	}
	scratch, _ := os.MkdirTemp("", "govc-"+prop+"-")
	defer os.RemoveAll(scratch)
	e.scratch = scratch

	res := &checkResult{prop: prop, tier: tier, assumptions: map[string]bool{}, inlined: map[string]bool{}}
	// 1. functions tagged with the property
	direct := map[string]bool{}
	for _, k := range e.contracts.Order {
		c := e.contracts.Funcs[k]
		if c.Extern || c.Assumed {
			continue
		}
		if _, isIface := e.ifaceMethod(k); isIface {
			continue
		}
		if hasTag(c.Tags, prop) {
			direct[k] = true
		}
	}
	for _, x := range pcfg.Extra {
		for _, k := range matchFuncs(e, x) {
			direct[k] = true
		}
	}
	// 1b. a precondition tagged with the property is an obligation of every caller: the contracted callers of
	// such a function are verified as well, but only their tagged `call.<f>.requires` obligations count here
	// (the rest of a caller serves the properties its own clauses name, and its callees are not followed)
	callerOnly := map[string]bool{}
	for _, k := range e.contracts.Order {
		c := e.contracts.Funcs[k]
		if c.Extern {
			continue
		}
		tagged := false
		for _, rq := range c.Requires {
			if hasTag(rq.Tags, prop) {
				tagged = true
			}
		}
		if !tagged {
			continue
		}
		for _, ck := range contractedCallersOf(e, k) {
			if !direct[ck] {
				callerOnly[ck] = true
			}
		}
	}
	// 2. verify, following contract dependencies (a contract that is assumed must be proved)
	done := map[string]bool{}
	var queue []string
	for k := range direct {
		queue = append(queue, k)
	}
	for k := range callerOnly {
		queue = append(queue, k)
	}
	sort.Strings(queue)
	var canaries []*Oblig
	for len(queue) > 0 {
		k := queue[0]
		queue = queue[1:]
		if done[k] {
			continue
		}
		done[k] = true
		run, err := e.Verify(k)
		if err != nil {
			res.undecided = append(res.undecided, err.Error())
			continue
		}
		if direct[k] {
			res.funcs = append(res.funcs, shortName(k))
		} else {
			res.closure = append(res.closure, shortName(k))
		}
		for _, o := range run.obligs {
			if callerOnly[k] && !direct[k] {
				if hasTag(o.Tags, prop) && strings.HasPrefix(o.Kind, "call.") {
					res.obligs = append(res.obligs, o)
				}
				continue
			}
			if direct[k] && len(o.Tags) > 0 && !hasTag(o.Tags, prop) {
				continue // serves other properties only
			}
			if !direct[k] && len(o.Tags) > 0 && !hasTag(o.Tags, prop) && (strings.HasPrefix(o.Kind, "panic.") || o.Kind == "overflow" || o.Kind == "conv") {
				continue // safety of a callee is claimed under the property its safety clause names
			}
			if !direct[k] && len(o.Tags) > 0 && !hasTag(o.Tags, prop) && isSideAssertion(o.Kind) {
				continue // anchored assertions / branch predicates of a callee state another property; callers rely on its ensures only
			}
			res.obligs = append(res.obligs, o)
		}
		canaries = append(canaries, run.canaries...)
		for a := range run.assumedCallees {
			res.assumptions["assumed contract: "+a] = true
		}
		for a := range run.inlined {
			res.inlined[shortName(a)] = true
		}
		for _, n := range run.notes {
			res.assumptions[n] = true
		}
		var deps []string
		if callerOnly[k] && !direct[k] {
			continue
		}
		for d := range e.deps[shortName(k)] {
			deps = append(deps, d)
		}
		sort.Strings(deps)
		for _, d := range deps {
			if !done[d] {
				if c := e.contracts.Funcs[d]; c != nil && !c.Extern && !c.Assumed {
					queue = append(queue, d)
				}
			}
		}
	}
	// 3. discharge
	genS := time.Since(t0).Seconds() - e.loadTime
	tSolve := time.Now()
	stats := &DischargeStats{ByBackend: map[string]int{}}
	knownNames := map[string]bool{}
	for _, f := range kf.Findings {
		if hasTag(f.Properties, prop) {
			knownNames[f.Obligation] = true
		}
	}
	for _, o := range res.obligs {
		if knownNames[o.Name] {
			o.TimeoutS = 6 // expected to fail: do not spend the full budget on it
		}
	}
	e.Discharge(res.obligs, timeout, stats)
	// retry failures once with a doubled timeout (solver flakiness is not a violation)
	known := map[string]KnownFinding{}
	for _, f := range kf.Findings {
		if hasTag(f.Properties, prop) {
			known[f.Obligation] = f
		}
	}
	// A postcondition of a callee that is a recorded finding of ANOTHER property shows up here only because it
	// is part of the callee's contract (the closure proves what callers assume). It is the same genuine defect,
	// already listed: report it as known under its own properties, never as a new violation of this one.
	for _, o := range res.obligs {
		if _, mine := known[o.Name]; mine || hasTag(o.Tags, prop) {
			continue
		}
		for _, f := range kf.Findings {
			if f.Obligation == o.Name {
				f.What = f.What + " (listed under " + strings.Join(f.Properties, ",") + ")"
				known[o.Name] = f
				knownNames[o.Name] = true
			}
		}
	}
	var retry []*Oblig
	for _, o := range res.obligs {
		if _, isKnown := known[o.Name]; isKnown {
			continue
		}
		if o.Result.Status != "unsat" && o.Result.Status != "sat" {
			retry = append(retry, o)
		}
	}
	if len(retry) > 0 && len(retry) <= 40 {
		saved := map[*Oblig]*SolverResult{}
		for _, o := range retry {
			saved[o] = o.Candidate
		}
		e.Discharge(retry, timeout*2, stats)
		for _, o := range retry {
			if o.Candidate == nil {
				o.Candidate = saved[o]
			}
		}
	}
	vac := e.DischargeCanaries(canaries, 3)
	solveWall := time.Since(tSolve).Seconds()
	res.canaries = len(canaries)
	for _, v := range vac {
		res.vacuous = append(res.vacuous, v.Name)
	}

	// 4. classify
	var baseline map[string]map[string]string
	_ = loadJSON(filepath.Join(vdir, "baseline-obligations.json"), &baseline)
	exit := 0
	discharged, expected, knownFailing := 0, 0, 0
	var violations []string
	replayDir := filepath.Join(vdir, "replays", prop)
	type sample struct {
		Obligation string  `json:"obligation"`
		Kind       string  `json:"kind"`
		Clause     string  `json:"clause"`
		Pos        string  `json:"pos"`
		Status     string  `json:"status"`
		Backend    string  `json:"backend"`
		Seconds    float64 `json:"seconds"`
	}
	var samples []sample
	type slow struct {
		n string
		t float64
	}
	var slows []slow
	sort.SliceStable(res.obligs, func(i, j int) bool { return res.obligs[i].Name < res.obligs[j].Name })
	for _, o := range res.obligs {
		slows = append(slows, slow{o.Name, o.Result.Time})
		if o.Result.Status == "unsat" {
			discharged++
			expected++
			if len(samples) < 6 && o.Result.Backend != "simplifier" {
				samples = append(samples, sample{o.Name, o.Kind, o.Text, o.Pos, "discharged", o.Result.Backend, o.Result.Time})
			}
			continue
		}
		if f, ok := known[o.Name]; ok {
			knownFailing++
			fmt.Printf("KNOWN-FINDING: property=%s %s %s\n", prop, o.Name, f.What)
			samples = append(samples, sample{o.Name, o.Kind, o.Text, o.Pos, "known-finding", "", o.Result.Time})
			continue
		}
		expected++
		// violation
		os.MkdirAll(replayDir, 0o755)
		path := filepath.Join(replayDir, sanitize(o.Name)+".json")
		rep := buildReplay(e, o, prop, baseline)
		b, _ := json.MarshalIndent(rep, "", " ")
		os.WriteFile(path, b, 0o644)
		line := fmt.Sprintf("VIOLATION property=%s replay=%s", prop, path)
		if !rep.Reproduced {
			line += " obligation=" + o.Name + " no-failing-input-found"
		} else {
			line += " obligation=" + o.Name
		}
		fmt.Println(line)
		violations = append(violations, o.Name)
		samples = append(samples, sample{o.Name, o.Kind, o.Text, o.Pos, "VIOLATED(" + o.Result.Status + ")", "", o.Result.Time})
		exit = 1
	}
	for _, u := range res.undecided {
		fmt.Printf("UNDECIDED property=%s %s\n", prop, u)
	}
	for _, v := range res.vacuous {
		fmt.Printf("UNDECIDED property=%s premises became contradictory at %s\n", prop, v)
	}
	// obligation count must not silently shrink
	if base, ok := baseline[prop]; ok && len(res.undecided) == 0 {
		missing := 0
		have := map[string]bool{}
		for _, o := range res.obligs {
			have[o.Name] = true
		}
		for n := range base {
			if !have[n] {
				missing++
				if missing <= 5 {
					fmt.Printf("UNDECIDED property=%s obligation %s of the baseline was not generated\n", prop, n)
				}
			}
		}
	}
	sort.Slice(slows, func(i, j int) bool { return slows[i].t > slows[j].t })
	var slowest []string
	for i := 0; i < len(slows) && i < 5; i++ {
		slowest = append(slowest, fmt.Sprintf("%s %.1fs", slows[i].n, slows[i].t))
	}

	// 5. bounded stand-ins
	var standinReports []map[string]interface{}
	for _, sname := range pcfg.Standins {
		rep, ok := runStandin(vdir, repo, sname, tier, seed)
		standinReports = append(standinReports, rep)
		if !ok {
			path := filepath.Join(replayDir, "standin-"+sname+".json")
			os.MkdirAll(replayDir, 0o755)
			b, _ := json.MarshalIndent(rep, "", " ")
			os.WriteFile(path, b, 0o644)
			if kfm, isKnown := known["standin:"+sname]; isKnown {
				fmt.Printf("KNOWN-FINDING: property=%s standin:%s %s\n", prop, sname, kfm.What)
			} else {
				fmt.Printf("VIOLATION property=%s replay=%s standin=%s (bounded check against the real code)\n", prop, path, sname)
				exit = 1
			}
		}
	}

	// 5b. thorough tier: the reproductions of the REPAIRED findings of this property are regression tests - each
	// failed before its fix: commit and must pass now; a failure means the defect has returned
	var fixedReplays []string
	if tier == "thorough" {
		re := regexp.MustCompile(`^fixed: property=(C[0-9]+) .*replay (known-findings/[A-Za-z0-9_]+\.go):([A-Za-z0-9_]+)`)
		byFile := map[string][]string{}
		for _, line := range kf.Fixed {
			m := re.FindStringSubmatch(line)
			if m == nil || m[1] != prop || strings.Contains(m[2], "race") {
				continue
			}
			byFile[m[2]] = append(byFile[m[2]], m[3])
		}
		var files []string
		for f := range byFile {
			files = append(files, f)
		}
		sort.Strings(files)
		for _, f := range files {
			srcB, err := os.ReadFile(filepath.Join(vdir, f))
			if err != nil {
				continue
			}
			pkgDir := "."
			switch {
			case strings.Contains(f, "kf_list"):
				pkgDir = "ds/list"
			case strings.Contains(f, "kf_set"):
				pkgDir = "ds/set"
			case strings.Contains(f, "kf_zset"):
				pkgDir = "ds/zset"
			}
			sc, _ := os.MkdirTemp("", "govc-fixed-")
			out, failed, err := goTestOverlay(repo, pkgDir, "govc_fixed_test.go", string(srcB), "("+strings.Join(byFile[f], "|")+")", sc)
			os.RemoveAll(sc)
			fixedReplays = append(fixedReplays, fmt.Sprintf("%s: %s", f, strings.Join(byFile[f], ", ")))
			if err == nil && failed {
				os.MkdirAll(replayDir, 0o755)
				path := filepath.Join(replayDir, "fixed-"+sanitize(filepath.Base(f))+".txt")
				os.WriteFile(path, []byte(tail(out, 4000)), 0o644)
				fmt.Printf("VIOLATION property=%s replay=%s a repaired finding has returned (reproduction in %s fails again)\n", prop, path, f)
				exit = 1
			}
		}
	}

	// 6. evidence
	var assumptions []string
	for a := range res.assumptions {
		assumptions = append(assumptions, a)
	}
	sort.Strings(assumptions)
	var trusted []string
	trusted = append(trusted, "go/ssa (x/tools v0.29.0) lowering of the real source, naive form", "govc VC generator (this repository)",
		"z3 4.8.12, z3 5.1.0, cvc5 1.0.3", "sequential semantics; goroutines and the memory model are not modelled",
		"slice/string lengths < 2^31", "package-level error variables are never reassigned")
	var models []string
	for n := range externModels {
		models = append(models, n+": "+externDoc[n])
	}
	sort.Strings(models)
	var inl []string
	for n := range res.inlined {
		inl = append(inl, n)
	}
	sort.Strings(inl)
	sort.Strings(res.funcs)
	sort.Strings(res.closure)
	cov := map[string]interface{}{
		"obligations":               expected,
		"discharged":                discharged,
		"known_finding_obligations": knownFailing,
		"violated":                  violations,
		"undecided":                 append(append([]string{}, res.undecided...), res.vacuous...),
		"checker_cmd":               fmt.Sprintf("%s/bin/govc check %s %s", vdir, prop, tier),
		"trusted_base":              trusted,
		"functions_under_contract":  res.funcs,
		"callee_contracts_proved":   res.closure,
		"inlined_without_contract":  inl,
		"by_backend":                stats.ByBackend,
		"solver_time_s":             stats.Time,
		"slowest":                   slowest,
		"vacuity_canaries":          map[string]int{"checked": res.canaries, "contradictory": len(res.vacuous)},
		"extern_models":             models,
		"bounded_standins":          standinReports,
		"fixed_finding_regressions": fixedReplays,
		"samples":                   samples,
		"load_s":                    e.loadTime,
		"timeout_s":                 timeout,
		"vc_generation_s":           genS,
		"solve_wall_s":              solveWall,
	}
	if pcfg.Level == "other" {
		cov["explanation"] = pcfg.Explanation
	}
	if len(pcfg.Unverified) > 0 {
		cov["unverified"] = pcfg.Unverified
	}
	ev := map[string]interface{}{
		"property_id": prop,
		"tier":        tier,
		"seed":        seed,
		"level":       pcfg.Level,
		"coverage":    cov,
		"assumptions": assumptions,
		"wall_s":      time.Since(t0).Seconds(),
		"violations":  len(violations),
	}
	os.MkdirAll(filepath.Join(vdir, "evidence"), 0o755)
	b, _ := json.MarshalIndent(ev, "", " ")
	if err := os.WriteFile(filepath.Join(vdir, "evidence", prop+".json"), b, 0o644); err != nil {
		fmt.Fprintln(os.Stderr, "cannot write evidence:", err)
		return 2
	}
	if os.Getenv("GOVC_WRITE_BASELINE") != "" {
		if baseline == nil {
			baseline = map[string]map[string]string{}
		}
		m := map[string]string{}
		for _, o := range res.obligs {
			st := "discharged"
			if o.Result.Status != "unsat" {
				st = "failing"
			}
			m[o.Name] = st
		}
		baseline[prop] = m
		bb, _ := json.MarshalIndent(baseline, "", " ")
		os.WriteFile(filepath.Join(vdir, "baseline-obligations.json"), bb, 0o644)
	}
	fmt.Printf("property %s (%s): %d functions under contract (+%d callee contracts), %d obligations expected, %d discharged, %d known findings, %d violations, %d undecided; %.1fs\n",
		prop, tier, len(res.funcs), len(res.closure), expected, discharged, knownFailing, len(violations), len(res.undecided)+len(res.vacuous), time.Since(t0).Seconds())
	if expected == 0 && len(pcfg.Standins) == 0 {
		fmt.Printf("ENGINE-ERROR property=%s no obligations were generated\n", prop)
		return 2
	}
	return exit
}

type Replay struct {
	Property    string            `json:"property"`
	Obligation  string            `json:"obligation"`
	Kind        string            `json:"kind"`
	Clause      string            `json:"clause"`
	Pos         string            `json:"pos"`
	Baseline    string            `json:"baseline_status"`
	Solver      map[string]string `json:"solver_status"`
	Model       string            `json:"model,omitempty"`
	ModelKind   string            `json:"model_kind,omitempty"`
	Reproduced  bool              `json:"reproduced_on_real_code"`
	ReplayTest  string            `json:"replay_test,omitempty"`
	ReplayOut   string            `json:"replay_output,omitempty"`
	Note        string            `json:"note"`
}

func buildReplay(e *Engine, o *Oblig, prop string, baseline map[string]map[string]string) *Replay {
	r := &Replay{Property: prop, Obligation: o.Name, Kind: o.Kind, Clause: o.Text, Pos: o.Pos, Solver: o.Result.All}
	if b, ok := baseline[prop]; ok {
		r.Baseline = b[o.Name]
		if r.Baseline == "" {
			r.Baseline = "not in baseline (new obligation)"
		}
	}
	if o.Result.Status == "sat" {
		r.Model = compactModel(o.Result.Output)
		r.ModelKind = "solver model of the full verification condition"
	} else if o.Candidate != nil {
		r.Model = compactModel(o.Candidate.Output)
		r.ModelKind = "candidate: model after dropping quantified facts (believed only if the replay reproduces)"
	}
	r.Note = "obligation not discharged: " + o.Result.Status
	if r.Model != "" {
		replayOnRealCode(e, o, r)
	}
	if !r.Reproduced && r.Note != "" {
		r.Note += "; no failing input found on the real code"
	}
	return r
}

func strOr(s, d string) string {
	if strings.TrimSpace(s) == "" {
		return d
	}
	return s
}

// isSideAssertion: obligation kinds produced by `at ...: assert` anchors ("at3.stored_x") and `branch k:` clauses.
func isSideAssertion(kind string) bool {
	if strings.HasPrefix(kind, "branch") {
		return true
	}
	return len(kind) > 2 && kind[0] == 'a' && kind[1] == 't' && kind[2] >= '0' && kind[2] <= '9'
}
