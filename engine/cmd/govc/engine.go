package main

import (
	"fmt"
	"go/token"
	"go/types"
	"os"
	"path/filepath"
	"regexp"
	"sort"
	"strings"
	"sync"
	"time"

	"golang.org/x/tools/go/packages"
	"golang.org/x/tools/go/ssa"
	"golang.org/x/tools/go/ssa/ssautil"
)

const modulePath = "github.com/xujiajun/nutsdb"

type Engine struct {
	repo      string
	prog      *ssa.Program
	fset      *token.FileSet
	spkgs     map[string]*ssa.Package
	tpkgs     map[string]*types.Package
	funcs     map[string]*ssa.Function
	contracts *Contracts
	typeIDs   map[string]int
	sentinels map[string]Val
	dryAll    bool
	deps      map[string]map[string]bool
	loadTime  float64
	scratch   string
	allocCache map[*ssa.Function]allocSet
	allocKnown map[*ssa.Function]bool
}

func LoadEngine(repo string) (*Engine, error) {
	t0 := time.Now()
	cfg := &packages.Config{Mode: packages.LoadAllSyntax, Dir: repo, BuildFlags: []string{"-tags=verif"},
		Env: append(os.Environ(), "GOFLAGS=-mod=mod", "GOPROXY=off", "GOSUMDB=off", "GOTOOLCHAIN=local")}
	patterns := []string{".", "./ds/..."}
	if p := os.Getenv("GOVC_PATTERNS"); p != "" {
		patterns = strings.Fields(p)
	}
	pkgs, err := packages.Load(cfg, patterns...)
	if err != nil {
		return nil, err
	}
	nerr := 0
	packages.Visit(pkgs, nil, func(p *packages.Package) {
		for _, e := range p.Errors {
			fmt.Fprintln(os.Stderr, "load error:", e)
			nerr++
		}
	})
	if nerr > 0 {
		return nil, fmt.Errorf("%d package load errors", nerr)
	}
	prog, _ := ssautil.AllPackages(pkgs, ssa.NaiveForm)
	prog.Build()
	e := &Engine{repo: repo, prog: prog, fset: prog.Fset, spkgs: map[string]*ssa.Package{}, tpkgs: map[string]*types.Package{},
		funcs: map[string]*ssa.Function{}, typeIDs: map[string]int{}, sentinels: map[string]Val{}, deps: map[string]map[string]bool{}}
	for _, p := range prog.AllPackages() {
		e.spkgs[p.Pkg.Path()] = p
		e.tpkgs[p.Pkg.Path()] = p.Pkg
	}
	dirs := map[string]string{}
	for _, p := range pkgs {
		if len(p.GoFiles) > 0 {
			dirs[p.PkgPath] = filepath.Dir(p.GoFiles[0])
		}
	}
	for fn := range ssautil.AllFunctions(prog) {
		if fn.Pkg == nil && fn.Object() == nil {
			continue
		}
		if fn.Synthetic != "" {
			continue
		}
		e.funcs[fullFuncName(fn)] = fn
	}
	cs, err := LoadContracts(dirs)
	if err != nil {
		return nil, err
	}
	e.contracts = cs
	e.findSentinels()
	e.loadTime = time.Since(t0).Seconds()
	return e, nil
}

func (e *Engine) inModule(f *ssa.Function) bool {
	if f.Pkg != nil {
		return strings.HasPrefix(f.Pkg.Pkg.Path(), modulePath)
	}
	if f.Object() != nil && f.Object().Pkg() != nil {
		return strings.HasPrefix(f.Object().Pkg().Path(), modulePath)
	}
	if p := f.Parent(); p != nil {
		return e.inModule(p)
	}
	return false
}

func (e *Engine) typesPkg(path string) *types.Package { return e.tpkgs[path] }

func (e *Engine) scopeOf(pkg string, callee *ssa.Function) *types.Package {
	if p, ok := e.tpkgs[pkg]; ok {
		return p
	}
	return nil
}

func (e *Engine) typeID(t types.Type) int {
	k := typeKey(t)
	if id, ok := e.typeIDs[k]; ok {
		return id
	}
	// a stable id (independent of the order in which types are met): FNV-1a of the type's name
	h := uint32(2166136261)
	for i := 0; i < len(k); i++ {
		h ^= uint32(k[i])
		h *= 16777619
	}
	id := 1 + int(h%1000003)
	for _, other := range e.typeIDs {
		if other == id {
			id += 1000003 // keep ids distinct on the (unlikely) collision
		}
	}
	e.typeIDs[k] = id
	return id
}

func (e *Engine) noteCallee(caller, callee string) {
	m := e.deps[caller]
	if m == nil {
		m = map[string]bool{}
		e.deps[caller] = m
	}
	m[callee] = true
}

func (e *Engine) lookupSpecFunc(qual, name, from string) *SpecFunc {
	if qual == "" {
		if sf, ok := e.contracts.SpecFuncs[from+"."+name]; ok {
			return sf
		}
		var found *SpecFunc
		for _, sf := range e.contracts.SpecFuncs {
			if sf.Name == name {
				if found != nil && found != sf {
					return found // ambiguous: first wins (names are unique in practice)
				}
				found = sf
			}
		}
		return found
	}
	for k, sf := range e.contracts.SpecFuncs {
		if sf.Name == name && (strings.HasSuffix(sf.Pkg, "/"+qual) || sf.Pkg == qual) {
			_ = k
			return sf
		}
	}
	return nil
}

// findSentinels gives every package-level error variable initialised by errors.New a distinct
// non-nil constant value; it also checks that none of them is assigned outside init.
func (e *Engine) findSentinels() {
	n := 0
	var names []string
	for path, p := range e.spkgs {
		if !strings.HasPrefix(path, modulePath) && path != "io" {
			continue
		}
		for _, m := range p.Members {
			g, ok := m.(*ssa.Global)
			if !ok {
				continue
			}
			et := g.Type().(*types.Pointer).Elem()
			if !types.Identical(et, types.Universe.Lookup("error").Type()) {
				continue
			}
			names = append(names, p.Pkg.Name()+"."+g.Name())
		}
	}
	sort.Strings(names)
	errT := types.Universe.Lookup("error").Type()
	it := types.Typ[types.Int]
	for _, nm := range names {
		n++
		sentinelVals["G:"+nm] = Val{K: KIface, T: errT, F: []Val{scalar(IntLit(int64(e.typeID(sentinelType{}))), it), scalar(IntLit(int64(-1000-n)), it)}}
		e.sentinels["G:"+nm] = Val{K: KIface, T: errT, F: []Val{scalar(IntLit(int64(e.typeID(sentinelType{}))), it), scalar(IntLit(int64(-1000-n)), it)}}
	}
}

// sentinelVals: package-level error variables as distinct non-nil constants (see findSentinels).
var sentinelVals = map[string]Val{}

type sentinelType struct{}

func (sentinelType) Underlying() types.Type { return sentinelType{} }
func (sentinelType) String() string         { return "*errors.errorString" }

// ---------- verifying one function

func (e *Engine) contractFor(name string) *FuncContract { return e.contracts.Funcs[name] }

func (e *Engine) Verify(name string) (run *FuncRun, err error) {
	fn := e.funcs[name]
	c := e.contracts.Funcs[name]
	if fn == nil {
		return nil, fmt.Errorf("UNDECIDED: function %s not found in the code", name)
	}
	if c == nil {
		return nil, fmt.Errorf("no contract for %s", name)
	}
	if c.Implements != "" {
		c = e.mergedContract(c)
	}
	run = &FuncRun{eng: e, fn: fn, contract: c, name: shortName(name), inlined: map[string]bool{}, assumedCallees: map[string]bool{}}
	e.resetTerms()
	defer func() {
		if r := recover(); r == nil {
			if run != nil && err == nil {
				e.renderRun(run)
				run.entry, run.params, run.inputs = nil, nil, nil
			}
			e.resetTerms()
		} else {
			e.resetTerms()
			switch x := r.(type) {
			case outsideSubset:
				err = fmt.Errorf("%s: %s", name, x.Error())
			case specError:
				err = fmt.Errorf("%s: %s", name, x.Error())
			default:
				panic(r)
			}
		}
	}()
	fr := newFrame(run, fn, 0, "", c)
	fr.top = true
	if c.Loops >= 0 && c.Loops != len(fr.loopList) {
		return nil, fmt.Errorf("UNDECIDED: %s: contract says loops %d but the code has %d", name, c.Loops, len(fr.loopList))
	}
	for k := range c.LoopInv {
		if k < 1 || k > len(fr.loopList) {
			return nil, fmt.Errorf("UNDECIDED: %s: invariant for loop %d but the code has %d loops", name, k, len(fr.loopList))
		}
	}
	st := newState()
	// nil is never an allocated object
	st.assume(And(Not(Select(st.H(allocKey, allocSort), IntLit(0))), Not(Select(st.H(allocAKey, allocSort), IntLit(0)))))
	var args []Val
	run.params = map[string]Val{}
	env := &SpecEnv{eng: e, pkg: fn.Pkg.Pkg.Path(), pkgScope: fn.Pkg.Pkg, cur: st, vars: map[string]Val{}}
	for _, p := range fn.Params {
		v := freshVal("p_"+p.Name(), p.Type())
		st.assume(wellTyped(v, st))
		st.assumeAllocated(v)
		args = append(args, v)
		run.params[p.Name()] = v
		env.vars[p.Name()] = v
		for i, t := range flatten(v) {
			run.inputs = append(run.inputs, namedTerm{fmt.Sprintf("%s#%d", p.Name(), i), t})
		}
	}
	for _, rq := range c.Requires {
		st.assume(env.evalBool(rq.Expr))
	}
	run.entry = st.clone()
	run.canary("entry", st.pc)
	env.old = run.entry
	exit, ret := fr.exec(st.clone(), args)
	if exit == nil {
		return run, nil
	}
	run.canary("exit", exit.pc)
	_ = ret
	pre := &SpecEnv{eng: e, pkg: env.pkg, pkgScope: env.pkgScope, cur: run.entry, old: run.entry, vars: env.vars}
	locs := pre.evalModLocs(c.Modifies)
	ftags := append([]string{}, c.ModTags...)
	// postconditions and frame are checked at every return site separately (smaller queries,
	// and a failure names the return statement)
	rets := append([]edgeState{}, fr.returns...)
	sort.SliceStable(rets, func(i, j int) bool {
		return fr.ordinals["return"][rets[i].from.Instrs[len(rets[i].from.Instrs)-1]] < fr.ordinals["return"][rets[j].from.Instrs[len(rets[j].from.Instrs)-1]]
	})
	for _, r := range rets {
		rst := r.st
		rv := rst.cells[fr.retCell]
		suffix := ""
		if len(rets) > 1 {
			suffix = fmt.Sprintf("@ret%d", fr.ordinals["return"][r.from.Instrs[len(r.from.Instrs)-1]])
		}
		pos := r.from.Instrs[len(r.from.Instrs)-1].Pos()
		post := &SpecEnv{eng: e, pkg: env.pkg, pkgScope: env.pkgScope, cur: rst, old: run.entry, vars: map[string]Val{}}
		for k, v := range run.params {
			post.vars[k] = v
		}
		bindResults(post, rv, resultNames(fn, c), fn.Signature.Results())
		for j, en := range c.Ensures {
			g := post.evalBool(en.Expr)
			// several quantified conjuncts in one postcondition: one query per conjunct (see call.go)
			fr.obligeSplit("ensures", j+1, suffix, en.Tags, rst, g, en.Text, pos)
		}
		fr.frameCheck("frame", run.entry, rst, locs, ftags, pos, suffix)
	}
	return run, nil
}

func (run *FuncRun) canary(where string, pc *Term) {
	run.canaries = append(run.canaries, &Oblig{Name: run.name + "#canary." + where, Kind: "canary", Func: run.name, PC: pc, Goal: False,
		Text: "premises are satisfiable at " + where + " (must NOT be provable)"})
}

// DischargeCanaries checks that no canary's premises are contradictory. A canary passes when
// the solver does not answer unsat (sat, unknown and timeout are all fine).
func (e *Engine) DischargeCanaries(cs []*Oblig, timeoutS int) (vacuous []*Oblig) {
	var wg sync.WaitGroup
	sem := make(chan struct{}, 16)
	for _, o := range cs {
		wg.Add(1)
		go func(o *Oblig) {
			defer wg.Done()
			sem <- struct{}{}
			defer func() { <-sem }()
			r := Solve(o.Script, o.Quant, timeoutS, e.scratch, o.Name)
			o.Result = &r
		}(o)
	}
	wg.Wait()
	for _, o := range cs {
		if o.Result.Status == "unsat" {
			vacuous = append(vacuous, o)
		}
	}
	return vacuous
}

func resultNames(fn *ssa.Function, c *FuncContract) []string {
	if len(c.Results) > 0 {
		return c.Results
	}
	var out []string
	rs := fn.Signature.Results()
	for i := 0; i < rs.Len(); i++ {
		out = append(out, rs.At(i).Name())
	}
	return out
}

func shortName(full string) string {
	s := strings.TrimPrefix(full, modulePath)
	s = strings.TrimPrefix(s, "/ds/")
	if strings.HasPrefix(s, ".") {
		return "nutsdb" + s
	}
	return s
}

// mergedContract copies the clauses of an interface-method contract into an implementation's.
func (e *Engine) mergedContract(c *FuncContract) *FuncContract {
	base := e.contracts.Funcs[c.Pkg+"."+c.Implements]
	if base == nil {
		sfail("contract %s implements unknown %s", c.Name, c.Implements)
	}
	m := *c
	m.Requires = append(append([]Clause{}, base.Requires...), c.Requires...)
	m.Ensures = append(append([]Clause{}, base.Ensures...), c.Ensures...)
	// an implementation may touch what the interface allows plus its own representation
	m.Modifies = append(append([]Clause{}, base.Modifies...), c.Modifies...)
	m.HasMod = base.HasMod || c.HasMod
	for k, v := range base.Safety {
		if _, ok := m.Safety[k]; !ok {
			m.Safety[k] = v
		}
	}
	m.Tags = append(append([]string{}, base.Tags...), c.Tags...)
	return &m
}

// ---------- discharging

type DischargeStats struct {
	mu        sync.Mutex
	ByBackend map[string]int
	Time      float64
	Slowest   []string
}

func (e *Engine) axioms() []*Term {
	var out []*Term
	for _, ax := range e.contracts.Axioms {
		env := &SpecEnv{eng: e, pkg: ax.Pkg, pkgScope: e.tpkgs[ax.Pkg], cur: newState(), vars: map[string]Val{}}
		out = append(out, env.evalBool(ax.Expr))
	}
	return out
}

func isQuantified(ts ...*Term) bool {
	seen := map[int]bool{}
	var rec func(t *Term) bool
	rec = func(t *Term) bool {
		if seen[t.id] {
			return false
		}
		seen[t.id] = true
		if t.kind == 'q' {
			return true
		}
		for _, a := range t.args {
			if rec(a) {
				return true
			}
		}
		return false
	}
	for _, t := range ts {
		if rec(t) {
			return true
		}
	}
	return false
}

const logicOpts = "(set-option :produce-models true)\n(set-logic ALL)\n"

func (e *Engine) scriptFor(o *Oblig, axioms []*Term) (string, bool) {
	var gm []*Term
	for _, in := range o.Inputs {
		gm = append(gm, in.T)
	}
	ax := append(append([]*Term{}, axioms...), strLitAxiomsFor(o.PC, o.Goal)...)
	debugInst = os.Getenv("GOVC_DEBUG_INST") != "" && strings.Contains(o.Name, os.Getenv("GOVC_DEBUG_INST"))
	goal, pc, extra := prepareQuery(o.PC, o.Goal, o.Hints, o.RefHints)
	return Script(logicOpts, strPrelude, ax, []*Term{pc, extra}, Not(goal), gm)
}

func (e *Engine) Discharge(obligs []*Oblig, timeoutS int, stats *DischargeStats) {
	// queries were rendered when their function was verified (render.go); solve them in parallel
	var jobs []*Oblig
	for _, o := range obligs {
		if o.Trivial {
			o.Result = &SolverResult{Status: "unsat", Backend: "simplifier"}
			continue
		}
		jobs = append(jobs, o)
	}
	var wg sync.WaitGroup
	sem := make(chan struct{}, 16)
	for _, o := range jobs {
		wg.Add(1)
		go func(o *Oblig) {
			defer wg.Done()
			sem <- struct{}{}
			defer func() { <-sem }()
			to := timeoutS
			if o.TimeoutS > 0 {
				to = o.TimeoutS
			}
			r := Solve(o.Script, o.Quant, to, e.scratch, o.Name)
			o.Result = &r
		}(o)
	}
	wg.Wait()
	// fallback for undecided obligations: the slim query (a subset of the hypotheses, so unsat carries over)
	for _, o := range jobs {
		if o.Result.Status != "unsat" && o.Result.Status != "sat" && o.SlimScript != "" {
			wg.Add(1)
			go func(o *Oblig) {
				defer wg.Done()
				sem <- struct{}{}
				defer func() { <-sem }()
				to := timeoutS
				if o.TimeoutS > 0 {
					to = o.TimeoutS
				}
				r := Solve(o.SlimScript, o.Quant, to, e.scratch, o.Name+".slim")
				if r.Status == "unsat" {
					r.Backend = "slim:" + r.Backend
					r.Time += o.Result.Time
					o.Result = &r
				}
			}(o)
		}
	}
	wg.Wait()
	// candidate counterexamples for undischarged obligations: quantified facts dropped
	for _, o := range jobs {
		if o.Result.Status != "unsat" && o.Result.Status != "sat" && o.CandScript != "" {
			wg.Add(1)
			go func(o *Oblig) {
				defer wg.Done()
				sem <- struct{}{}
				defer func() { <-sem }()
				r := Solve(o.CandScript, false, timeoutS, e.scratch, o.Name+".cand")
				if r.Status == "sat" {
					o.Candidate = &r
				}
			}(o)
		}
	}
	wg.Wait()
	if stats != nil {
		for _, o := range obligs {
			if o.Result != nil {
				stats.ByBackend[o.Result.Backend]++
				stats.Time += o.Result.Time
			}
		}
	}
}

func matchFuncs(e *Engine, pat string) []string {
	re := regexp.MustCompile(pat)
	var out []string
	for _, k := range e.contracts.Order {
		c := e.contracts.Funcs[k]
		if c.Extern || c.Assumed {
			continue
		}
		if _, isFn := e.funcs[k]; !isFn {
			// interface method contracts have no body
			if _, isIface := e.ifaceMethod(k); isIface {
				continue
			}
		}
		if re.MatchString(shortName(k)) {
			out = append(out, k)
		}
	}
	return out
}

func (e *Engine) ifaceMethod(key string) (*types.Func, bool) {
	// key = pkgpath.Type.Method where Type is an interface
	i := strings.LastIndex(key, ".")
	if i < 0 {
		return nil, false
	}
	j := strings.LastIndex(key[:i], ".")
	if j < 0 {
		return nil, false
	}
	pkg, tn, mn := key[:j], key[j+1:i], key[i+1:]
	tp := e.tpkgs[pkg]
	if tp == nil {
		return nil, false
	}
	obj := tp.Scope().Lookup(tn)
	if obj == nil {
		return nil, false
	}
	it, ok := obj.Type().Underlying().(*types.Interface)
	if !ok {
		return nil, false
	}
	for k := 0; k < it.NumMethods(); k++ {
		if it.Method(k).Name() == mn {
			return it.Method(k), true
		}
	}
	return nil, false
}
