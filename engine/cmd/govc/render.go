package main

// Obligations are rendered to SMT-LIB right after their function has been executed, and the
// term store is then reset. The text of a query therefore depends only on the function and its
// contracts, never on which other functions were verified earlier in the same process
// (term ids decide argument orders, so a shared store made proofs order dependent).

import (
	"strings"

	"golang.org/x/tools/go/ssa"
)

func (e *Engine) renderRun(run *FuncRun) {
	axioms := e.axioms()
	for _, o := range run.obligs {
		e.renderOblig(o, axioms)
	}
	for _, o := range run.canaries {
		e.renderOblig(o, axioms)
	}
}

func (e *Engine) renderOblig(o *Oblig, axioms []*Term) {
	if o.Kind != "canary" && (o.Goal == True || And(o.PC, Not(o.Goal)) == False) {
		o.Trivial = true
		o.PC, o.Goal, o.Hints, o.RefHints, o.Inputs = nil, nil, nil, nil, nil
		return
	}
	o.Script, o.Quant = e.scriptFor(o, axioms)
	// slim query (fallback when the full one is not decided): structure invariants repeated for many states
	// drown small goals; dropping the quantified hypotheses that share no heap location with the goal is sound
	if o.Kind != "canary" && o.Quant {
		if slim, dropped := slimPC(o.PC, o.Goal); dropped >= 6 {
			full := o.PC
			o.PC = slim
			o.SlimScript, _ = e.scriptFor(o, axioms)
			o.PC = full
		}
	}
	// candidate-counterexample query: quantified facts dropped
	if o.Kind != "canary" && o.Quant && !termQuantified(o.Goal) {
		var keep []*Term
		for _, c := range conjuncts(o.PC) {
			if !termQuantified(c) {
				keep = append(keep, c)
			}
		}
		var gm []*Term
		for _, in := range o.Inputs {
			gm = append(gm, in.T)
		}
		o.CandScript, _ = Script(logicOpts, func(seen map[string]bool) (string, bool) {
			decls := strDecls
			codec, _ := codecPrelude(seen)
			for _, ln := range strings.Split(codec, "\n") {
				if strings.HasPrefix(ln, "(declare-fun") {
					decls += ln + "\n"
				}
			}
			return decls, false
		}, strLitAxiomsFor(o.PC, o.Goal), keep, Not(o.Goal), gm)
	}
	o.PC, o.Goal, o.Hints, o.RefHints, o.Inputs = nil, nil, nil, nil, nil
}

// resetTerms starts a fresh term universe.
func (e *Engine) resetTerms() {
	TS = &TermStore{tab: map[string]*Term{}, decls: map[string]string{}, fresh: map[string]int{}}
	True = TS.mk('c', "true", SBool, nil, nil, nil)
	False = TS.mk('c', "false", SBool, nil, nil, nil)
	strLits = map[string]*Term{}
	strLitOrder = nil
	iterCells = map[*ssa.Range]*ssa.Alloc{}
	cellIDs = map[*ssa.Alloc]int{}
	atOrds = map[string]map[ssa.Instruction]int{}
	sentinelVals = map[string]Val{}
	e.sentinels = map[string]Val{}
	e.findSentinels()
}
