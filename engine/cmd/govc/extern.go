package main

// Built-in models of dependency functions (assumed; listed in evidence as trusted).

import (
	"fmt"
	"go/types"
	"math/big"
	"strings"

	"golang.org/x/tools/go/ssa"
)

func leDecode(n int, row, off *Term) *Term {
	args := make([]*Term, n)
	for k := 0; k < n; k++ {
		args[k] = Select(row, Add(off, IntLit(int64(k))))
	}
	return App(fmt.Sprintf("le%d", n), SInt, args...)
}

// codecPrelude: declarations and axioms of the little-endian / CRC abstraction.
func codecPrelude(seen map[string]bool) (string, bool) {
	var sb strings.Builder
	quant := false
	if seen["byteOf"] || seen["le2"] || seen["le4"] || seen["le8"] {
		quant = true
		sb.WriteString("(declare-fun byteOf (Int Int) Int)\n")
		sb.WriteString("(assert (forall ((v Int) (k Int)) (! (and (<= 0 (byteOf v k)) (<= (byteOf v k) 255)) :pattern ((byteOf v k)))))\n")
		for _, n := range []int{2, 4, 8} {
			vars, names, bytes, inv := "", "", "", ""
			for k := 0; k < n; k++ {
				vars += fmt.Sprintf("(a%d Int) ", k)
				names += fmt.Sprintf("a%d ", k)
				bytes += fmt.Sprintf("(byteOf v %d) ", k)
				inv += fmt.Sprintf("(=> (and (<= 0 a%d) (<= a%d 255)) true) ", k, k)
			}
			limit := new(big.Int).Lsh(big.NewInt(1), uint(8*n)).String()
			fmt.Fprintf(&sb, "(declare-fun le%d (%s) Int)\n", n, strings.TrimSpace(strings.Repeat("Int ", n)))
			fmt.Fprintf(&sb, "(assert (forall (%s) (! (and (<= 0 (le%d %s)) (< (le%d %s) %s)) :pattern ((le%d %s)))))\n", vars, n, names, n, names, limit, n, names)
			fmt.Fprintf(&sb, "(assert (forall ((v Int)) (! (=> (and (<= 0 v) (< v %s)) (= (le%d %s) v)) :pattern ((le%d %s)))))\n", limit, n, bytes, n, bytes)
			// byteOf(leN(a..), k) = a_k for byte-valued a
			guard, eqs := "", ""
			for k := 0; k < n; k++ {
				guard += fmt.Sprintf("(<= 0 a%d) (<= a%d 255) ", k, k)
				eqs += fmt.Sprintf("(= (byteOf (le%d %s) %d) a%d) ", n, names, k, k)
			}
			fmt.Fprintf(&sb, "(assert (forall (%s) (! (=> (and %s) (and %s)) :pattern ((le%d %s)))))\n", vars, guard, eqs, n, names)
		}
	}
	if seen["crcUpd"] {
		quant = true
		sb.WriteString("(declare-fun crcUpd (Int Str) Int)\n")
		sb.WriteString("(assert (forall ((c Int) (s Str)) (! (and (<= 0 (crcUpd c s)) (< (crcUpd c s) 4294967296)) :pattern ((crcUpd c s)))))\n")
		sb.WriteString("(assert (forall ((c Int) (s Str) (t Str)) (! (= (crcUpd (crcUpd c s) t) (crcUpd c (sconcat s t))) :pattern ((crcUpd (crcUpd c s) t)))))\n")
	}
	return sb.String(), quant
}

type externModel func(fr *Frame, ins ssa.Instruction, callee *ssa.Function, args []Val, st *State) Val

var externModels map[string]externModel

var externDoc = map[string]string{}

func init() {
	it := types.Typ[types.Int]
	bt := types.Typ[types.Bool]
	externModels = map[string]externModel{}
	reg := func(name, doc string, m externModel) {
		externModels[name] = m
		externDoc[name] = doc
	}
	errT := types.Universe.Lookup("error").Type()
	newErr := func(fr *Frame, st *State) Val {
		r := st.freshRef("err")
		st.assume(Eq(RefTag(r), IntLit(2000003))) // an error value is not an object of any module struct type
		return Val{K: KIface, T: errT, F: []Val{scalar(IntLit(int64(fr.run.eng.typeID(sentinelType{}))), it), scalar(r, it)}}
	}
	reg("errors.New", "returns a fresh non-nil error", func(fr *Frame, ins ssa.Instruction, callee *ssa.Function, args []Val, st *State) Val {
		return newErr(fr, st)
	})
	reg("fmt.Errorf", "returns a fresh non-nil error", func(fr *Frame, ins ssa.Instruction, callee *ssa.Function, args []Val, st *State) Val {
		return newErr(fr, st)
	})
	reg("time.Now", "clock value (opaque)", func(fr *Frame, ins ssa.Instruction, callee *ssa.Function, args []Val, st *State) Val {
		// time.Time is a struct; we return an opaque struct whose Unix() is the ghost clock
		return Val{K: KStruct, T: callee.Signature.Results().At(0).Type(), F: nil}
	})
	reg("time.Time.Unix", "returns ghost clock `now` (any int64 >= 0; one value per function activation)", func(fr *Frame, ins ssa.Instruction, callee *ssa.Function, args []Val, st *State) Val {
		now := Sym("clock$now", SInt)
		st.assume(And(Ge(now, IntLit(0)), Le(now, IntLit(1<<62))))
		return scalar(now, types.Typ[types.Int64])
	})
	reg("bytes.Equal", "content equality of the two byte sequences", func(fr *Frame, ins ssa.Instruction, callee *ssa.Function, args []Val, st *State) Val {
		return scalar(StrEq(bytesToString(args[0], st), bytesToString(args[1], st)), bt)
	})
	reg("bytes.Compare", "sign of a total order on byte strings (rank), 0 iff equal", func(fr *Frame, ins ssa.Instruction, callee *ssa.Function, args []Val, st *State) Val {
		a, b := bytesToString(args[0], st), bytesToString(args[1], st)
		return scalar(Ite(StrEq(a, b), IntLit(0), Ite(Lt(StrRank(a), StrRank(b)), IntLit(-1), IntLit(1))), it)
	})
	// ---- little-endian codecs: byte k of v is byteOf(v,k); decoding is leN(bytes...) with inverse axioms
	for _, n := range []int{2, 4, 8} {
		n := n
		bits := fmt.Sprint(n * 8)
		reg("encoding/binary.littleEndian.PutUint"+bits, "writes byteOf(v,k) at b[k], k<"+fmt.Sprint(n)+"; panics when len(b) is too short", func(fr *Frame, ins ssa.Instruction, callee *ssa.Function, args []Val, st *State) Val {
			b, v := args[1], args[2].S
			fr.panicCheck("panic.call", ins, st, Ge(b.F[2].S, IntLit(int64(n))), "PutUint"+bits+" on a slice shorter than "+fmt.Sprint(n))
			h := byteHeap(st)
			row := Select(h, b.F[0].S)
			for k := 0; k < n; k++ {
				row = Store(row, Add(b.F[1].S, IntLit(int64(k))), App("byteOf", SInt, v, IntLit(int64(k))))
			}
			st.setH(elemKey(byteType), Store(h, b.F[0].S, row))
			return Val{K: KUnit}
		})
		reg("encoding/binary.littleEndian.Uint"+bits, "le"+fmt.Sprint(n)+"(b[0..]) with inverse axioms; panics when len(b) is too short", func(fr *Frame, ins ssa.Instruction, callee *ssa.Function, args []Val, st *State) Val {
			b := args[1]
			fr.panicCheck("panic.call", ins, st, Ge(b.F[2].S, IntLit(int64(n))), "Uint"+bits+" on a slice shorter than "+fmt.Sprint(n))
			row := Select(byteHeap(st), b.F[0].S)
			return scalar(leDecode(n, row, b.F[1].S), callee.Signature.Results().At(0).Type())
		})
	}
	reg("hash/crc32.ChecksumIEEE", "crcUpd(0, bytes) (uninterpreted, chaining axiom)", func(fr *Frame, ins ssa.Instruction, callee *ssa.Function, args []Val, st *State) Val {
		return scalar(App("crcUpd", SInt, IntLit(0), bytesToString(args[0], st)), types.Typ[types.Uint32])
	})
	reg("hash/crc32.Update", "crcUpd(c, bytes) (uninterpreted, chaining axiom)", func(fr *Frame, ins ssa.Instruction, callee *ssa.Function, args []Val, st *State) Val {
		return scalar(App("crcUpd", SInt, args[0].S, bytesToString(args[2], st)), types.Typ[types.Uint32])
	})
	reg("bytes.HasPrefix", "uninterpreted prefix predicate with order axioms", func(fr *Frame, ins ssa.Instruction, callee *ssa.Function, args []Val, st *State) Val {
		return scalar(HasPrefixS(bytesToString(args[0], st), bytesToString(args[1], st)), bt)
	})
}
