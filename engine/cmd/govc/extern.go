package main

// Built-in models of dependency functions (assumed; listed in evidence as trusted).

import (
	"go/types"

	"golang.org/x/tools/go/ssa"
)

type externModel func(fr *Frame, ins ssa.Instruction, callee *ssa.Function, args []Val, st *State) Val

var externModels map[string]externModel

var externDoc = map[string]string{}

func init() {
	it := types.Typ[types.Int]
	bt := types.Typ[types.Bool]
	externModels = map[string]externModel{}
	reg := func(name, doc string, m externModel) {
		externModels[name] = m
		externDoc[name] = doc
	}
	errT := types.Universe.Lookup("error").Type()
	newErr := func(fr *Frame, st *State) Val {
		r := st.freshRef("err")
		return Val{K: KIface, T: errT, F: []Val{scalar(IntLit(int64(fr.run.eng.typeID(sentinelType{}))), it), scalar(r, it)}}
	}
	reg("errors.New", "returns a fresh non-nil error", func(fr *Frame, ins ssa.Instruction, callee *ssa.Function, args []Val, st *State) Val {
		return newErr(fr, st)
	})
	reg("fmt.Errorf", "returns a fresh non-nil error", func(fr *Frame, ins ssa.Instruction, callee *ssa.Function, args []Val, st *State) Val {
		return newErr(fr, st)
	})
	reg("time.Now", "clock value (opaque)", func(fr *Frame, ins ssa.Instruction, callee *ssa.Function, args []Val, st *State) Val {
		// time.Time is a struct; we return an opaque struct whose Unix() is the ghost clock
		return Val{K: KStruct, T: callee.Signature.Results().At(0).Type(), F: nil}
	})
	reg("time.Time.Unix", "returns ghost clock `now` (any int64 >= 0; one value per function activation)", func(fr *Frame, ins ssa.Instruction, callee *ssa.Function, args []Val, st *State) Val {
		now := Sym("clock$now", SInt)
		st.assume(And(Ge(now, IntLit(0)), Le(now, IntLit(1<<62))))
		return scalar(now, types.Typ[types.Int64])
	})
	reg("bytes.Equal", "content equality of the two byte sequences", func(fr *Frame, ins ssa.Instruction, callee *ssa.Function, args []Val, st *State) Val {
		return scalar(StrEq(bytesToString(args[0], st), bytesToString(args[1], st)), bt)
	})
	reg("bytes.Compare", "sign of a total order on byte strings (rank), 0 iff equal", func(fr *Frame, ins ssa.Instruction, callee *ssa.Function, args []Val, st *State) Val {
		a, b := bytesToString(args[0], st), bytesToString(args[1], st)
		return scalar(Ite(StrEq(a, b), IntLit(0), Ite(Lt(StrRank(a), StrRank(b)), IntLit(-1), IntLit(1))), it)
	})
	reg("bytes.HasPrefix", "uninterpreted prefix predicate with order axioms", func(fr *Frame, ins ssa.Instruction, callee *ssa.Function, args []Val, st *State) Val {
		return scalar(HasPrefixS(bytesToString(args[0], st), bytesToString(args[1], st)), bt)
	})
}
