package main

import (
	"bytes"
	"context"
	"fmt"
	"os"
	"os/exec"
	"path/filepath"
	"strings"
	"sync"
	"time"
)

type SolverResult struct {
	Status  string // unsat | sat | unknown | timeout | error
	Backend string
	Time    float64
	Output  string // raw output (model etc.)
	All     map[string]string
}

type solverSpec struct {
	name string
	argv func(file string, timeoutS int) []string
	qf   bool // only for quantifier-free queries
}

var solvers = []solverSpec{
	{"z3-4.8.12", func(f string, t int) []string { return []string{"/usr/bin/z3", fmt.Sprintf("-T:%d", t), f} }, false},
	{"z3-5.1.0", func(f string, t int) []string { return []string{"z3-new", fmt.Sprintf("-T:%d", t), f} }, false},
	{"z3-5.1.0/ematch", func(f string, t int) []string {
		return []string{"z3-new", fmt.Sprintf("-T:%d", t), "smt.auto_config=false", "smt.mbqi=false", f}
	}, false},
	{"z3-4.8.12/ematch", func(f string, t int) []string {
		return []string{"/usr/bin/z3", fmt.Sprintf("-T:%d", t), "smt.auto_config=false", "smt.mbqi=false", f}
	}, false},
	{"cvc5-1.0.3", func(f string, t int) []string {
		return []string{"cvc5", fmt.Sprintf("--tlimit=%d", t*1000), "--produce-models", f}
	}, true},
}

var solverSem = make(chan struct{}, solverJobs())

// solverJobs: number of solver processes run at once (GOVC_JOBS, default 16 = the sandbox's cores).
func solverJobs() int {
	if s := os.Getenv("GOVC_JOBS"); s != "" {
		var n int
		if _, err := fmt.Sscanf(s, "%d", &n); err == nil && n > 0 {
			return n
		}
	}
	return 16
}

// Solve races the back ends on one script. unsat from any (and sat from none) wins.
func Solve(script string, quantified bool, timeoutS int, scratch string, tag string) SolverResult {
	file := filepath.Join(scratch, sanitize(tag)+".smt2")
	if err := os.WriteFile(file, []byte(script), 0o644); err != nil {
		return SolverResult{Status: "error", Output: err.Error()}
	}
	// stage 1: one quick attempt with the configuration that decides most obligations, so that
	// the full race (four to five processes) is only paid for the hard ones
	if timeoutS > 4 && os.Getenv("GOVC_NOSTAGE") == "" {
		solverSem <- struct{}{}
		c, cancel1 := context.WithTimeout(context.Background(), 5*time.Second)
		cmd := exec.CommandContext(c, "z3-new", "-T:3", "smt.auto_config=false", "smt.mbqi=false", file)
		var out bytes.Buffer
		cmd.Stdout = &out
		cmd.Stderr = &out
		t0 := time.Now()
		_ = cmd.Run()
		cancel1()
		<-solverSem
		for _, ln := range strings.Split(out.String(), "\n") {
			ln = strings.TrimSpace(ln)
			if ln == "" || strings.HasPrefix(ln, "WARNING") {
				continue
			}
			if ln == "unsat" || ln == "sat" {
				if ln == "unsat" && os.Getenv("GOVC_KEEP") == "" {
					os.Remove(file)
				}
				return SolverResult{Status: ln, Backend: "z3-5.1.0/ematch", Time: time.Since(t0).Seconds(), Output: out.String(),
					All: map[string]string{"z3-5.1.0/ematch": ln}}
			}
			break
		}
	}
	type one struct {
		name, status, out string
		t            float64
	}
	ctx, cancel := context.WithCancel(context.Background())
	defer cancel()
	resc := make(chan one, len(solvers))
	var wg sync.WaitGroup
	n := 0
	for _, s := range solvers {
		if s.qf && quantified {
			continue
		}
		// reachability canaries only need "not refutable": two complementary configurations suffice
		if strings.Contains(tag, "#canary.") && s.name != "z3-4.8.12" && s.name != "z3-5.1.0/ematch" {
			continue
		}
		n++
		wg.Add(1)
		go func(s solverSpec) {
			defer wg.Done()
			solverSem <- struct{}{}
			defer func() { <-solverSem }()
			if ctx.Err() != nil {
				resc <- one{s.name, "cancelled", "", 0}
				return
			}
			argv := s.argv(file, timeoutS)
			c, cancel2 := context.WithTimeout(ctx, time.Duration(timeoutS+5)*time.Second)
			defer cancel2()
			cmd := exec.CommandContext(c, argv[0], argv[1:]...)
			var out bytes.Buffer
			cmd.Stdout = &out
			cmd.Stderr = &out
			t0 := time.Now()
			_ = cmd.Run()
			el := time.Since(t0).Seconds()
			txt := out.String()
			first := ""
			for _, ln := range strings.Split(txt, "\n") {
				ln = strings.TrimSpace(ln)
				if ln == "" || strings.HasPrefix(ln, "WARNING") {
					continue
				}
				first = ln
				break
			}
			st := "error"
			switch {
			case first == "unsat":
				st = "unsat"
			case first == "sat":
				st = "sat"
			case first == "unknown":
				st = "unknown"
			case strings.Contains(first, "timeout") || c.Err() != nil:
				st = "timeout"
			case first == "" && ctx.Err() != nil:
				st = "cancelled"
			}
			resc <- one{s.name, st, txt, el}
		}(s)
	}
	go func() { wg.Wait(); close(resc) }()
	res := SolverResult{Status: "unknown", All: map[string]string{}}
	var errOut string
	for r := range resc {
		res.All[r.name] = r.status
		if r.status == "unsat" || r.status == "sat" {
			if res.Status != "unsat" && res.Status != "sat" {
				res.Status, res.Backend, res.Time, res.Output = r.status, r.name, r.t, r.out
				cancel()
			}
		} else if r.status == "error" {
			errOut = r.name + ": " + r.out
		} else if r.status == "timeout" && res.Status == "unknown" {
			res.Status = "timeout"
			res.Time = r.t
		}
	}
	if res.Status != "unsat" && res.Status != "sat" && errOut != "" {
		allErr := true
		for _, st := range res.All {
			if st != "error" && st != "cancelled" {
				allErr = false
			}
		}
		if allErr {
			res.Status = "error"
		}
		res.Output = errOut
	}
	if res.Status == "unsat" && os.Getenv("GOVC_KEEP") == "" {
		os.Remove(file)
	}
	return res
}
