package main

import (
	"fmt"
	"go/token"
	"os"
	"sort"

	"golang.org/x/tools/go/ssa"
)

func (fr *Frame) specEnv(st *State) *SpecEnv {
	env := &SpecEnv{eng: fr.run.eng, pkg: fr.fn.Pkg.Pkg.Path(), pkgScope: fr.fn.Pkg.Pkg, cur: st, old: fr.run.entry,
		vars: map[string]Val{}, fr: fr, entry: fr.run.params}
	if !fr.top {
		env.old = nil
		env.entry = nil
	}
	for k, v := range fr.hookVars {
		env.vars[k] = v
	}
	env.loopPre = fr.loopPre
	if fr.pendingRet != nil && fr.contract != nil {
		bindResults(env, *fr.pendingRet, resultNames(fr.fn, fr.contract), fr.fn.Signature.Results())
	}
	return env
}

// loop contracts apply only to the frame that executes the contracted function itself
func (fr *Frame) loopClauses(li *loopInfo) (inv []Clause, mod []Clause, hasMod bool) {
	c := fr.contract
	if c == nil {
		return nil, nil, false
	}
	return c.LoopInv[li.ordinal], c.LoopMod[li.ordinal], c.LoopHasMod[li.ordinal]
}

type modSet struct {
	cells map[*ssa.Alloc]bool
	keys  map[string]bool
}

func diffStates(base, t *State, ms *modSet) {
	for k, v := range t.cells {
		bv, ok := base.cells[k]
		if ok && !sameVal(bv, v) {
			ms.cells[k] = true
		}
	}
	for k, v := range t.heap {
		if base.H(k, base.sorts.sort[k]) != v {
			ms.keys[k] = true
		}
	}
}

func (fr *Frame) dryRunLoop(li *loopInfo, st *State) *modSet {
	ms := &modSet{cells: map[*ssa.Alloc]bool{}, keys: map[string]bool{}}
	for round := 0; round < 6; round++ {
		s := st.clone()
		fr.havocModSet(s, ms, nil, "dry")
		saveInc := fr.incoming
		saveBack := fr.dryBack
		fr.incoming = map[*ssa.BasicBlock][]edgeState{li.header: {{nil, s.clone()}}}
		fr.dryBack = nil
		fr.dry++
		fr.runBlocks(fr.order, li.body, li.header)
		fr.dry--
		backs := fr.dryBack
		fr.dryBack = saveBack
		fr.incoming = saveInc
		if len(backs) == 0 && round == 0 {
			fr.run.noteOnce(fmt.Sprintf("loop %d of %s: no path reaches the back edge (loop body never repeats?)", li.ordinal, fr.fn.Name()))
		}
		before := len(ms.cells) + len(ms.keys)
		for _, b := range backs {
			diffStates(s, b, ms)
		}
		if len(ms.cells)+len(ms.keys) == before {
			break
		}
	}
	if os.Getenv("GOVC_DEBUG_LOOP") != "" {
		var ks []string
		for k := range ms.keys {
			ks = append(ks, k)
		}
		sort.Strings(ks)
		fmt.Fprintf(os.Stderr, "DEBUG loop %d of %s modifies heap keys %v and %d cells\n", li.ordinal, fr.fn.Name(), ks, len(ms.cells))
	}
	return ms
}

// havocModSet replaces modified cells and heap keys by fresh values. Keys covered by locs are
// havocked only at the named rows.
func (fr *Frame) havocModSet(st *State, ms *modSet, locs []modLoc, hint string) {
	var cells []*ssa.Alloc
	for c := range ms.cells {
		cells = append(cells, c)
	}
	sort.Slice(cells, func(i, j int) bool { return cellIDs[cells[i]] < cellIDs[cells[j]] })
	for _, c := range cells {
		old := st.cells[c]
		var nv Val
		if old.K == KScalar && old.T == nil {
			nv = scalar(Fresh(hint+"_"+c.Comment, old.S.sort), nil)
		} else if old.K == KAddr || old.K == KFunc || old.K == KIter {
			continue
		} else {
			nv = freshLike(hint+"_"+c.Comment, old)
			st.assume(wellTyped(nv, st))
		}
		st.cells[c] = nv
	}
	preAlloc, preAllocA := st.H(allocKey, allocSort), st.H(allocAKey, allocSort)
	covered := map[string]bool{}
	if locs != nil {
		for _, k := range fr.havocLocsLoop(st, locs, hint) {
			covered[k] = true
		}
	}
	var keys []string
	for k := range ms.keys {
		keys = append(keys, k)
	}
	sort.Strings(keys)
	for _, k := range keys {
		if covered[k] {
			continue
		}
		srt := st.sorts.sort[k]
		if k == allocKey || k == allocAKey {
			old := st.H(k, allocSort)
			nw := Fresh("alloc", allocSort)
			st.assume(Not(Select(nw, IntLit(0)))) // nil is never an allocated object
			r := Bound("r", SInt)
			st.assume(Forall([]*Term{r}, Implies(Select(old, r), Select(nw, r)), []*Term{Select(nw, r)}, []*Term{Select(old, r)}))
			st.setH(k, nw)
			continue
		}
		nw := Fresh(hint+"_"+k, srt)
		if locs != nil && len(string(srt)) > 0 && string(srt)[0] == '(' && preAlloc != nil {
			// the loop has a modifies clause that does not name this key: only objects allocated
			// after loop entry may change (checked at the back edge by the frame obligation)
			ak := preAlloc
			if len(k) > 2 && k[:2] == "E:" {
				ak = preAllocA
			}
			r := Bound("r", SInt)
			st.assume(Forall([]*Term{r}, Implies(Select(ak, r), Eq(Select(nw, r), Select(st.H(k, srt), r))), []*Term{Select(nw, r)}))
		}
		st.setH(k, nw)
	}
	// values in havocked cells refer to allocated objects of the (possibly grown) heap
	for _, c := range cells {
		if v, ok := st.cells[c]; ok && (v.K == KScalar && v.T != nil || v.K == KSlice || v.K == KIface || v.K == KStruct) {
			st.assumeAllocated(v)
		}
	}
}

func freshLike(hint string, v Val) Val {
	switch v.K {
	case KScalar:
		return Val{K: KScalar, T: v.T, S: Fresh(hint, v.S.sort)}
	case KSlice, KIface, KStruct, KTuple:
		out := Val{K: v.K, T: v.T}
		for i, f := range v.F {
			out.F = append(out.F, freshLike(fmt.Sprintf("%s_%d", hint, i), f))
		}
		return out
	}
	return v
}

// havocLocs havocs the named locations; returns the heap keys it touched.
func (fr *Frame) havocLocs(st *State, locs []modLoc, hint string) []string {
	var touched []string
	for _, l := range locs {
		if l.kind == "everything" {
			var allKeys []string
			for k := range st.sorts.sort {
				allKeys = append(allKeys, k)
			}
			sort.Strings(allKeys)
			for _, k := range allKeys {
				srt := st.sorts.sort[k]
				if k == allocKey || k == allocAKey {
					continue
				}
				st.setH(k, Fresh(hint+"_all_"+k, srt))
				touched = append(touched, k)
			}
			continue
		}
		for _, lk := range l.keys() {
			h := st.H(lk.key, lk.sort)
			switch {
			case l.whole():
				st.setH(lk.key, Fresh(hint+"_"+lk.key, lk.sort))
			default:
				st.setH(lk.key, Store(h, l.ref, Fresh(hint+"_"+lk.key, lk.row)))
			}
			touched = append(touched, lk.key)
		}
	}
	return touched
}

// havocLocsLoop havocs, for a loop with a modifies clause, the named locations and everything
// allocated after loop entry: objects allocated before the loop and not named keep their contents.
func (fr *Frame) havocLocsLoop(st *State, locs []modLoc, hint string) []string {
	allowed := map[string][]*Term{}
	sorts := map[string]Sort{}
	whole := map[string]bool{}
	var order []string
	for _, l := range locs {
		if l.kind == "everything" {
			return fr.havocLocs(st, locs, hint)
		}
		for _, lk := range l.keys() {
			if _, seen := sorts[lk.key]; !seen {
				order = append(order, lk.key)
			}
			sorts[lk.key] = lk.sort
			if l.whole() {
				whole[lk.key] = true
			} else {
				allowed[lk.key] = append(allowed[lk.key], l.ref)
			}
		}
	}
	for _, k := range order {
		old := st.H(k, sorts[k])
		nw := Fresh(hint+"_"+k, sorts[k])
		if !whole[k] {
			ak := allocKey
			if len(k) > 2 && k[:2] == "E:" {
				ak = allocAKey
			}
			r := Bound("r", SInt)
			pre := []*Term{Select(st.H(ak, allocSort), r)}
			for _, a := range allowed[k] {
				pre = append(pre, Neq(r, a))
			}
			st.assume(Forall([]*Term{r}, Implies(And(pre...), Eq(Select(nw, r), Select(old, r))), []*Term{Select(nw, r)}))
		}
		st.setH(k, nw)
	}
	return order
}

func (fr *Frame) enterLoop(li *loopInfo, st *State) *State {
	invs, mods, hasMod := fr.loopClauses(li)
	lname := fmt.Sprintf("loop%d", li.ordinal)
	pos := loopPos(li)
	fr.loopPre = st.clone()
	// invariants hold on entry
	if !fr.dryMode() {
		env := fr.specEnv(st)
		for k, inv := range invs {
			g := env.evalBool(inv.Expr)
			fr.obligeSplit(lname+".inv.init", k+1, "", inv.Tags, st, g, "loop invariant holds on entry: "+inv.Text, pos)
		}
	}
	myPre := fr.loopPre
	ms := fr.dryRunLoop(li, st)
	fr.loopPre = myPre // nested loops entered during the dry run have overwritten it
	var locs []modLoc
	if hasMod {
		locs = fr.specEnv(st).evalModLocs(mods)
		if locs == nil {
			locs = []modLoc{}
		}
	}
	preLoop := st.clone()
	fr.havocModSet(st, ms, locs, lname)
	env := fr.specEnv(st)
	for _, inv := range invs {
		st.assume(env.evalBool(inv.Expr))
	}
	li.hasMod = hasMod
	li.modLocs = locs
	li.headState = preLoop // frame reference: the heap before the loop
	if !fr.dryMode() && fr.top {
		fr.run.canary(lname+".head", st.pc)
	}
	return st
}

func (fr *Frame) backEdge(li *loopInfo, st *State, from *ssa.BasicBlock) {
	if fr.dryMode() {
		return
	}
	invs, _, _ := fr.loopClauses(li)
	lname := fmt.Sprintf("loop%d", li.ordinal)
	pos := loopPos(li)
	if li.headState != nil {
		fr.loopPre = li.headState
	}
	env := fr.specEnv(st)
	suffix := ""
	nback := 0
	for _, p := range li.header.Preds {
		if li.header.Dominates(p) {
			nback++
		}
	}
	if nback > 1 {
		suffix = fmt.Sprintf("@b%d", from.Index)
	}
	for k, inv := range invs {
		g := env.evalBool(inv.Expr)
		fr.obligeSplit(lname+".inv.preserve", k+1, suffix, inv.Tags, st, g, "loop invariant is preserved: "+inv.Text, pos)
	}
	if li.hasMod && li.headState != nil {
		fr.frameCheck(lname+".frame", li.headState, st, li.modLocs, nil, pos, suffix)
	}
}

// frameCheck emits, for every heap key that differs between base and fin, an obligation that
// everything outside the allowed locations is unchanged (for objects allocated in base).
func (fr *Frame) frameCheck(kind string, base, fin *State, locs []modLoc, tags []string, pos token.Pos, suffix string) {
	allowed := map[string][]*Term{}
	whole := map[string]bool{}
	for _, l := range locs {
		if l.kind == "everything" {
			return
		}
		for _, lk := range l.keys() {
			if l.whole() {
				whole[lk.key] = true
			} else {
				allowed[lk.key] = append(allowed[lk.key], l.ref)
			}
		}
	}
	var keys []string
	for k := range fin.heap {
		keys = append(keys, k)
	}
	sort.Strings(keys)
	for _, k := range keys {
		if k == allocKey || k == allocAKey || whole[k] {
			continue
		}
		srt := fin.sorts.sort[k]
		b, f := base.H(k, srt), fin.heap[k]
		if b == f {
			continue
		}
		var goal *Term
		if string(srt)[0] != '(' {
			goal = Eq(b, f) // scalar global
		} else {
			r := Fresh("frame_r", SInt)
			isArr := len(k) > 2 && k[:2] == "E:"
			ak := allocKey
			if isArr {
				ak = allocAKey
			}
			pre := []*Term{Select(base.H(ak, allocSort), r)}
			for _, a := range allowed[k] {
				pre = append(pre, Neq(r, a))
			}
			goal = Implies(And(pre...), Eq(Select(b, r), Select(f, r)))
		}
		fr.oblige(kind, 0, "["+k+"]"+suffix, tags, fin, goal, "only the locations in the modifies clause change ("+k+")", pos)
	}
}

// ---------- anchored assertions

func (fr *Frame) atHook(where, target string, ins ssa.Instruction, st *State) {
	c := fr.contract
	if c == nil {
		return
	}
	for i, at := range c.Ats {
		if at.Where != where || at.Target != target {
			continue
		}
		if at.Loop != 0 && ins != nil {
			ok := false
			for _, li := range fr.loopList {
				if li.ordinal == at.Loop && li.body[ins.Block()] {
					ok = true
				}
			}
			if !ok {
				continue
			}
		}
		if at.Nth != 0 && where == "call" && fr.callOrd[target][ins] != at.Nth {
			continue
		}
		if at.Nth != 0 && where == "return" && fr.ordinals["return"][ins] != at.Nth {
			continue
		}
		if at.Kind == "bump" {
			// ghost update: <name> := <name> + 1
			key := "ghost:" + at.Clause.Expr.Tok
			st.setH(key, Add(st.H(key, SInt), IntLit(1)))
			continue
		}
		if at.Kind == "set" {
			// ghost assignment written as `set name == expr`
			e := at.Clause.Expr
			if e.Op != "bin" || e.Tok != "==" || e.Args[0].Op != "id" {
				sfail("ghost assignment must have the form `set name == expr`: %s", at.Clause.Text)
			}
			senv := fr.specEnv(st)
			if where == "entry" {
				for k, pv := range fr.run.params {
					senv.vars[k] = pv
				}
			}
			v := senv.eval(e.Args[1])
			key := "ghost:" + e.Args[0].Tok
			st.setH(key, flatten(v)[0])
			continue
		}
		env := fr.specEnv(st)
		if where == "entry" {
			for k, pv := range fr.run.params {
				env.vars[k] = pv
			}
		}
		g := env.evalBool(at.Clause.Expr)
		switch at.Kind {
		case "assert":
			ord := fr.atOrdinal(i, ins)
			fr.oblige(fmt.Sprintf("at%d.%s", i+1, where+"_"+target), ord, "", at.Clause.Tags, st, g, at.Clause.Text, ins.Pos())
			st.assume(g)
		case "assume":
			fr.run.noteOnce("assumed at " + where + " " + target + " in " + fr.fn.Name() + ": " + at.Clause.Text)
			st.assume(g)
		}
	}
}

var atOrds = map[string]map[ssa.Instruction]int{}

func (fr *Frame) atOrdinal(i int, ins ssa.Instruction) int {
	key := fmt.Sprintf("%p/%d", fr.contract, i)
	m := atOrds[key]
	if m == nil {
		m = map[ssa.Instruction]int{}
		atOrds[key] = m
	}
	if o, ok := m[ins]; ok {
		return o
	}
	m[ins] = len(m) + 1
	return m[ins]
}

func (fr *Frame) branchHook(x *ssa.If, st *State, cond *Term) {
	c := fr.contract
	if c == nil || fr.dryMode() {
		return
	}
	n := fr.ifOrd[x]
	for _, bc := range c.Branches {
		if bc.N != n {
			continue
		}
		env := fr.specEnv(st)
		want := env.evalBool(bc.Clause.Expr)
		var goal *Term
		switch bc.Rel {
		case "iff":
			goal = Iff(cond, want)
		case "implies":
			goal = Implies(cond, want)
		case "implied-by":
			goal = Implies(want, cond)
		default:
			sfail("unknown branch relation %s", bc.Rel)
		}
		if bc.Assume != nil {
			goal = Implies(env.evalBool(bc.Assume), goal)
		}
		fr.oblige(fmt.Sprintf("branch%d.%s", n, bc.Rel), 0, "", bc.Clause.Tags, st, goal, "branch condition "+bc.Rel+" "+bc.Clause.Text, x.Pos())
	}
}
