package main

// mentionsAllocated reports whether the spec expression contains allocated(name) (possibly under old(...)).
func mentionsAllocated(e *SExpr, name string) bool {
	if e == nil {
		return false
	}
	if e.Op == "call" && len(e.Args) == 2 && e.Args[0] != nil && e.Args[0].Op == "id" && e.Args[0].Tok == "allocated" &&
		e.Args[1] != nil && e.Args[1].Op == "id" && e.Args[1].Tok == name {
		return true
	}
	for _, a := range e.Args {
		if mentionsAllocated(a, name) {
			return true
		}
	}
	return false
}
