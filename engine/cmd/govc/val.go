package main

// Symbolic values, type shapes, heap access.

import (
	"fmt"
	"go/types"
	"math/big"
	"sort"
	"strings"

	"golang.org/x/tools/go/ssa"
)

type VKind int

const (
	KScalar VKind = iota
	KSlice        // F = arr, off, len, cap
	KIface        // F = typ, val
	KStruct       // F = fields
	KTuple        // F = components
	KAddr
	KFunc
	KIter
	KUnit
)

type Val struct {
	K  VKind
	T  types.Type
	S  *Term
	F  []Val
	A  *Addr
	Fn *ssa.Function
	Cl []Val // closure bindings
	It *IterState
}

type AddrKind int

const (
	ACell AddrKind = iota
	AField
	AElem
	AGlobal
)

type Addr struct {
	Kind  AddrKind
	Cell  *ssa.Alloc
	Ref   *Term  // AField: object ref
	Arr   *Term  // AElem: array id
	Idx   *Term  // AElem: absolute index in backing array
	Key   string // heap key prefix
	T     types.Type
}

type IterState struct {
	Map     Val
	MapT    *types.Map
	Visited *Term // (Array K Bool)
	Site    *ssa.Range
	// string/other iteration unsupported
}

func scalar(t *Term, T types.Type) Val { return Val{K: KScalar, S: t, T: T} }

type leaf struct {
	suffix string
	sort   Sort
	typ    types.Type // go type of the leaf when it is a basic/pointer value
}

var pkgShort = func(p *types.Package) string { return p.Name() }

func typeKey(t types.Type) string {
	return types.TypeString(t, pkgShort)
}

func isRefType(t types.Type) bool {
	switch u := t.Underlying().(type) {
	case *types.Pointer:
		_ = u
		return true
	case *types.Map, *types.Chan, *types.Signature:
		return true
	}
	return false
}

// shapeOf returns the leaves of a Go type.
func shapeOf(t types.Type) []leaf {
	switch u := t.Underlying().(type) {
	case *types.Basic:
		switch {
		case u.Info()&types.IsBoolean != 0:
			return []leaf{{"", SBool, t}}
		case u.Info()&types.IsInteger != 0:
			return []leaf{{"", SInt, t}}
		case u.Info()&types.IsFloat != 0:
			return []leaf{{"", SReal, t}}
		case u.Info()&types.IsString != 0:
			return []leaf{{"", SStr, t}}
		case u.Kind() == types.UnsafePointer:
			return []leaf{{"", SInt, t}}
		case u.Kind() == types.UntypedNil:
			return []leaf{{"", SInt, t}}
		}
	case *types.Pointer, *types.Map, *types.Chan, *types.Signature:
		return []leaf{{"", SInt, t}}
	case *types.Slice:
		it := types.Typ[types.Int]
		_ = it
		return []leaf{{"", SSlc, t}}
	case *types.Interface:
		it := types.Typ[types.Int]
		_ = it
		return []leaf{{"", SIfc, t}}
	case *types.Struct:
		var out []leaf
		for i := 0; i < u.NumFields(); i++ {
			f := u.Field(i)
			for _, l := range shapeOf(f.Type()) {
				out = append(out, leaf{"." + f.Name() + l.suffix, l.sort, l.typ})
			}
		}
		return out
	case *types.Array:
		// arrays as values are represented by an array id
		return []leaf{{"#aid", SInt, types.Typ[types.Int]}}
	case *types.Tuple:
		var out []leaf
		for i := 0; i < u.Len(); i++ {
			for _, l := range shapeOf(u.At(i).Type()) {
				out = append(out, leaf{fmt.Sprintf("$%d%s", i, l.suffix), l.sort, l.typ})
			}
		}
		return out
	}
	panic(outsideSubset{"unsupported type " + t.String()})
}

type outsideSubset struct{ msg string }

func (o outsideSubset) Error() string { return "outside-subset: " + o.msg }

func flatten(v Val) []*Term {
	switch v.K {
	case KScalar:
		return []*Term{v.S}
	case KSlice:
		return []*Term{MkSlc(v.F[0].S, v.F[1].S, v.F[2].S, v.F[3].S)}
	case KIface:
		return []*Term{MkIfc(v.F[0].S, v.F[1].S)}
	case KStruct, KTuple:
		var out []*Term
		for _, f := range v.F {
			out = append(out, flatten(f)...)
		}
		return out
	case KUnit:
		return nil
	}
	panic(outsideSubset{fmt.Sprintf("cannot flatten value kind %d (type %v)", v.K, v.T)})
}

// unflatten builds a Val of type t from leaf terms (consumes from ts).
func unflatten(t types.Type, ts *[]*Term) Val {
	take := func() *Term { x := (*ts)[0]; *ts = (*ts)[1:]; return x }
	switch u := t.Underlying().(type) {
	case *types.Slice:
		it := types.Typ[types.Int]
		x := take()
		return Val{K: KSlice, T: t, F: []Val{scalar(SlcGet("s_arr", x), it), scalar(SlcGet("s_off", x), it), scalar(SlcGet("s_len", x), it), scalar(SlcGet("s_cap", x), it)}}
	case *types.Interface:
		it := types.Typ[types.Int]
		x := take()
		return Val{K: KIface, T: t, F: []Val{scalar(IfcGet("i_typ", x), it), scalar(IfcGet("i_val", x), it)}}
	case *types.Struct:
		v := Val{K: KStruct, T: t}
		for i := 0; i < u.NumFields(); i++ {
			v.F = append(v.F, unflatten(u.Field(i).Type(), ts))
		}
		return v
	case *types.Tuple:
		v := Val{K: KTuple, T: t}
		for i := 0; i < u.Len(); i++ {
			v.F = append(v.F, unflatten(u.At(i).Type(), ts))
		}
		return v
	}
	return scalar(take(), t)
}

func valFromLeaves(t types.Type, ts []*Term) Val {
	cp := append([]*Term{}, ts...)
	return unflatten(t, &cp)
}

// ---- integer ranges

func intRange(t types.Type) (lo, hi *big.Int, ok bool) {
	b, isb := t.Underlying().(*types.Basic)
	if !isb || b.Info()&types.IsInteger == 0 {
		return nil, nil, false
	}
	bits := 64
	switch b.Kind() {
	case types.Int8, types.Uint8:
		bits = 8
	case types.Int16, types.Uint16:
		bits = 16
	case types.Int32, types.Uint32:
		bits = 32
	case types.UntypedInt, types.UntypedRune:
		return nil, nil, false
	}
	one := big.NewInt(1)
	if b.Info()&types.IsUnsigned != 0 {
		hi = new(big.Int).Sub(new(big.Int).Lsh(one, uint(bits)), one)
		return big.NewInt(0), hi, true
	}
	hi = new(big.Int).Sub(new(big.Int).Lsh(one, uint(bits-1)), one)
	lo = new(big.Int).Neg(new(big.Int).Lsh(one, uint(bits-1)))
	return lo, hi, true
}

func inRange(x *Term, t types.Type) *Term {
	lo, hi, ok := intRange(t)
	if !ok {
		return True
	}
	return And(Le(BigLit(lo), x), Le(x, BigLit(hi)))
}

const maxLen = 1 << 31

// wellTyped returns the constraints that a (symbolic) value of type t satisfies.
func wellTyped(v Val, st *State) *Term {
	switch v.K {
	case KScalar:
		if v.S.sort == SInt {
			if _, _, ok := intRange(v.T); ok {
				return inRange(v.S, v.T)
			}
			if v.T != nil && isRefType(v.T) {
				return Ge(v.S, IntLit(0))
			}
		}
		if v.S.sort == SStr {
			return And(Ge(Slen(v.S), IntLit(0)), Lt(Slen(v.S), IntLit(maxLen)))
		}
		return True
	case KSlice:
		arr, off, ln, cp := v.F[0].S, v.F[1].S, v.F[2].S, v.F[3].S
		return And(Ge(arr, IntLit(0)), Ge(off, IntLit(0)), Ge(ln, IntLit(0)), Le(ln, cp), Lt(cp, IntLit(maxLen)), Lt(off, IntLit(maxLen)),
			Implies(Eq(arr, IntLit(0)), And(Eq(cp, IntLit(0)), Eq(off, IntLit(0)))))
	case KIface:
		return And(Ge(v.F[0].S, IntLit(0)), Implies(Eq(v.F[0].S, IntLit(0)), Eq(v.F[1].S, IntLit(0))))
	case KStruct, KTuple:
		var cs []*Term
		for _, f := range v.F {
			cs = append(cs, wellTyped(f, st))
		}
		return And(cs...)
	}
	return True
}

// zeroVal returns the zero value of a type.
func zeroVal(t types.Type) Val {
	ls := shapeOf(t)
	ts := make([]*Term, len(ls))
	for i, l := range ls {
		ts[i] = zeroOfSort(l.sort)
	}
	return valFromLeaves(t, ts)
}

func zeroOfSort(s Sort) *Term {
	switch s {
	case SInt:
		return IntLit(0)
	case SBool:
		return False
	case SReal:
		return RealLit("0.0")
	case SStr:
		return EmptyStr()
	case SSlc:
		z := IntLit(0)
		return MkSlc(z, z, z, z)
	case SIfc:
		return MkIfc(IntLit(0), IntLit(0))
	}
	panic("zero of sort " + s)
}

const (
	SSlc Sort = "Slc"
	SIfc Sort = "Ifc"
)

const dtPrelude = "(declare-datatypes ((Slc 0)) (((mkslc (s_arr Int) (s_off Int) (s_len Int) (s_cap Int)))))\n" +
	"(declare-datatypes ((Ifc 0)) (((mkifc (i_typ Int) (i_val Int)))))\n"

func MkSlc(a, o, l, c *Term) *Term {
	// mk(acc(x)..) == x
	if a.kind == 'a' && a.op == "s_arr" {
		x := a.args[0]
		if o == SlcGet("s_off", x) && l == SlcGet("s_len", x) && c == SlcGet("s_cap", x) {
			return x
		}
	}
	return App("mkslc", SSlc, a, o, l, c)
}

func SlcGet(acc string, x *Term) *Term {
	if x.kind == 'a' && x.op == "mkslc" {
		switch acc {
		case "s_arr":
			return x.args[0]
		case "s_off":
			return x.args[1]
		case "s_len":
			return x.args[2]
		case "s_cap":
			return x.args[3]
		}
	}
	if x.kind == 'a' && x.op == "ite" {
		return Ite(x.args[0], SlcGet(acc, x.args[1]), SlcGet(acc, x.args[2]))
	}
	return App(acc, SInt, x)
}

func MkIfc(t, v *Term) *Term {
	if t.kind == 'a' && t.op == "i_typ" && v == IfcGet("i_val", t.args[0]) {
		return t.args[0]
	}
	return App("mkifc", SIfc, t, v)
}

func IfcGet(acc string, x *Term) *Term {
	if x.kind == 'a' && x.op == "mkifc" {
		if acc == "i_typ" {
			return x.args[0]
		}
		return x.args[1]
	}
	if x.kind == 'a' && x.op == "ite" {
		return Ite(x.args[0], IfcGet(acc, x.args[1]), IfcGet(acc, x.args[2]))
	}
	return App(acc, SInt, x)
}

func freshVal(hint string, t types.Type) Val {
	ls := shapeOf(t)
	ts := make([]*Term, len(ls))
	for i, l := range ls {
		ts[i] = Fresh(hint+l.suffix, l.sort)
	}
	return valFromLeaves(t, ts)
}

func iteVal(c *Term, a, b Val) Val {
	if a.K != b.K {
		panic(outsideSubset{fmt.Sprintf("merge of different value kinds %d/%d", a.K, b.K)})
	}
	switch a.K {
	case KScalar:
		if a.S == b.S {
			return a
		}
		return Val{K: KScalar, T: a.T, S: Ite(c, a.S, b.S)}
	case KSlice, KIface, KStruct, KTuple:
		out := Val{K: a.K, T: a.T}
		for i := range a.F {
			out.F = append(out.F, iteVal(c, a.F[i], b.F[i]))
		}
		return out
	case KUnit:
		return a
	case KFunc:
		if a.Fn == b.Fn {
			return a
		}
	case KAddr:
		if a.A == b.A {
			return a
		}
		if a.A.Kind == b.A.Kind && a.A.Key == b.A.Key {
			switch a.A.Kind {
			case AField:
				return Val{K: KAddr, T: a.T, A: &Addr{Kind: AField, Ref: Ite(c, a.A.Ref, b.A.Ref), Key: a.A.Key, T: a.A.T}}
			case AElem:
				return Val{K: KAddr, T: a.T, A: &Addr{Kind: AElem, Arr: Ite(c, a.A.Arr, b.A.Arr), Idx: Ite(c, a.A.Idx, b.A.Idx), Key: a.A.Key, T: a.A.T}}
			case ACell:
				if a.A.Cell == b.A.Cell {
					return a
				}
			case AGlobal:
				return a
			}
		}
	case KIter:
		if a.It == b.It {
			return a
		}
	}
	panic(outsideSubset{fmt.Sprintf("cannot merge values of kind %d", a.K)})
}

func sameVal(a, b Val) bool {
	if a.K != b.K {
		return false
	}
	switch a.K {
	case KScalar:
		return a.S == b.S
	case KSlice, KIface, KStruct, KTuple:
		if len(a.F) != len(b.F) {
			return false
		}
		for i := range a.F {
			if !sameVal(a.F[i], b.F[i]) {
				return false
			}
		}
		return true
	case KAddr:
		return a.A == b.A
	case KFunc:
		return a.Fn == b.Fn
	case KIter:
		return a.It == b.It
	case KUnit:
		return true
	}
	return false
}

// eqVal builds equality between two values of the same shape.
func eqVal(a, b Val) *Term {
	// nil literal against slice / iface
	if a.K == KSlice && b.K == KScalar {
		return Eq(a.F[0].S, IntLit(0))
	}
	if b.K == KSlice && a.K == KScalar {
		return Eq(b.F[0].S, IntLit(0))
	}
	if a.K == KIface && b.K == KScalar {
		return Eq(a.F[0].S, IntLit(0))
	}
	if b.K == KIface && a.K == KScalar {
		return Eq(b.F[0].S, IntLit(0))
	}
	if a.K == KScalar && b.K == KScalar {
		if a.S.sort == SStr && b.S.sort == SStr {
			return StrEq(a.S, b.S)
		}
		return Eq(a.S, b.S)
	}
	if (a.K == KSlice && b.K == KSlice) || (a.K == KIface && b.K == KIface) {
		xa, xb := flatten(a)[0], flatten(b)[0]
		if !(xa.kind == 'a' && (xa.op == "mkslc" || xa.op == "mkifc")) && !(xb.kind == 'a' && (xb.op == "mkslc" || xb.op == "mkifc")) {
			return Eq(xa, xb)
		}
		var cs []*Term
		for i := range a.F {
			cs = append(cs, Eq(a.F[i].S, b.F[i].S))
		}
		return And(cs...)
	}
	if (a.K == KStruct && b.K == KStruct || a.K == KTuple && b.K == KTuple) && len(a.F) == len(b.F) {
		var cs []*Term
		for i := range a.F {
			cs = append(cs, eqVal(a.F[i], b.F[i]))
		}
		return And(cs...)
	}
	fa, fb := flatten(a), flatten(b)
	if len(fa) != len(fb) {
		panic(outsideSubset{"equality between values of different shape"})
	}
	var cs []*Term
	for i := range fa {
		if fa[i].sort == SStr {
			cs = append(cs, StrEq(fa[i], fb[i]))
		} else {
			cs = append(cs, Eq(fa[i], fb[i]))
		}
	}
	return And(cs...)
}

// ---- string theory (uninterpreted, with axioms in prelude)

func Slen(s *Term) *Term        { return App("slen", SInt, s) }
func Sat(s, i *Term) *Term      { return App("sat", SInt, s, i) }
func EmptyStr() *Term           { return App("sempty", SStr) }
func StrEq(a, b *Term) *Term {
	if a == b {
		return True
	}
	if a.id > b.id {
		a, b = b, a
	}
	if a.kind == 'b' && b.kind == 'b' {
		// two quantified variables: plain equality (streq s t <=> s = t by the prelude). Using streq here
		// would make every pair of instances trigger the extensionality axiom (sdiff / sat terms).
		return Eq(a, b)
	}
	return App("streq", SBool, a, b)
}
func AbsB(row, off, n *Term) *Term { return App("absB", SStr, row, off, n) }
func Sconcat(a, b *Term) *Term     { return App("sconcat", SStr, a, b) }
func StrRank(a *Term) *Term        { return App("srank", SReal, a) }
func HasPrefixS(s, p *Term) *Term  { return App("sprefix", SBool, s, p) }

var byteRow = ArrSort(SInt, SInt)

// string literal terms: one symbol per literal, content given by axioms generated on demand
var strLits = map[string]*Term{}
var strLitOrder []string

func StrLit(s string) *Term {
	if s == "" {
		return EmptyStr()
	}
	if t, ok := strLits[s]; ok {
		return t
	}
	t := Sym(fmt.Sprintf("lit$%d$%s", len(strLits), sanitize(truncate(s, 12))), SStr)
	strLits[s] = t
	strLitOrder = append(strLitOrder, s)
	return t
}

func truncate(s string, n int) string {
	if len(s) > n {
		return s[:n]
	}
	return s
}

// strLitAxiomsFor restricts the literal axioms to literals occurring in the given terms.
func strLitAxiomsFor(ts ...*Term) []*Term {
	used := map[int]bool{}
	seen := map[int]bool{}
	var rec func(t *Term)
	rec = func(t *Term) {
		if seen[t.id] {
			return
		}
		seen[t.id] = true
		if t.kind == 'v' && t.sort == SStr {
			used[t.id] = true
		}
		for _, a := range t.args {
			rec(a)
		}
	}
	for _, t := range ts {
		rec(t)
	}
	var keys []string
	for _, s := range strLitOrder {
		if used[strLits[s].id] {
			keys = append(keys, s)
		}
	}
	return strLitAxiomsOf(keys)
}

// strLitAxioms gives length / content / distinctness facts for the literals used.
func strLitAxioms() []*Term {
	return strLitAxiomsOf(append([]string{}, strLitOrder...))
}

func strLitAxiomsOf(keys []string) []*Term {
	var out []*Term
	sort.Strings(keys)
	for _, s := range keys {
		t := strLits[s]
		out = append(out, Eq(Slen(t), IntLit(int64(len(s)))))
		if len(s) <= 8 {
			for i := 0; i < len(s); i++ {
				out = append(out, Eq(Sat(t, IntLit(int64(i))), IntLit(int64(s[i]))))
			}
		}
	}
	for i := 0; i < len(keys); i++ {
		for j := i + 1; j < len(keys); j++ {
			out = append(out, Not(StrEq(strLits[keys[i]], strLits[keys[j]])))
		}
	}
	return out
}

const strDecls = `(declare-fun slen (Str) Int)
(declare-fun sat (Str Int) Int)
(declare-fun sempty () Str)
(declare-fun streq (Str Str) Bool)
(declare-fun absB ((Array Int Int) Int Int) Str)
(declare-fun sconcat (Str Str) Str)
(declare-fun srank (Str) Real)
(declare-fun sprefix (Str Str) Bool)
(declare-fun sdiff (Str Str) Int)
`

const strAxioms = `(assert (= (slen sempty) 0))
(assert (forall ((s Str)) (! (>= (slen s) 0) :pattern ((slen s)))))
(assert (forall ((s Str) (t Str)) (! (= (streq s t) (= s t)) :pattern ((streq s t)))))
(assert (forall ((s Str) (t Str)) (! (or (streq s t) (not (= (slen s) (slen t))) (and (<= 0 (sdiff s t)) (< (sdiff s t) (slen s)) (not (= (sat s (sdiff s t)) (sat t (sdiff s t)))))) :pattern ((streq s t)))))
(assert (forall ((a (Array Int Int)) (o Int) (n Int)) (! (=> (>= n 0) (= (slen (absB a o n)) n)) :pattern ((absB a o n)))))
(assert (forall ((a (Array Int Int)) (o Int) (n Int) (i Int)) (! (=> (and (<= 0 i) (< i n)) (= (sat (absB a o n) i) (select a (+ o i)))) :pattern ((sat (absB a o n) i)))))
(assert (forall ((a (Array Int Int)) (i Int) (v Int) (o Int) (n Int)) (! (=> (or (< i o) (>= i (+ o n))) (= (absB (store a i v) o n) (absB a o n))) :pattern ((absB (store a i v) o n)))))
(assert (forall ((s Str) (t Str)) (! (= (slen (sconcat s t)) (+ (slen s) (slen t))) :pattern ((sconcat s t)))))
(assert (forall ((s Str) (t Str) (i Int)) (! (= (sat (sconcat s t) i) (ite (< i (slen s)) (sat s i) (sat t (- i (slen s))))) :pattern ((sat (sconcat s t) i)))))
(assert (forall ((s Str) (t Str)) (! (=> (= (srank s) (srank t)) (= s t)) :pattern ((srank s) (srank t)))))
(assert (forall ((s Str)) (! (=> (= (slen s) 0) (= s sempty)) :pattern ((slen s)))))
`

// strPrelude includes the string axioms only when a query mentions strings at all.
func strPrelude(seen map[string]bool) (string, bool) {
	codec, cq := codecPrelude(seen)
	for _, f := range []string{"slen", "sat", "sempty", "streq", "absB", "sconcat", "srank", "sprefix", "crcUpd", "ssub"} {
		if seen[f] {
			return strDecls + strAxioms + codec, true
		}
	}
	return codec, cq
}

// ---- heap keys

func fieldKey(st types.Type, path string) string {
	return "F:" + typeKey(st) + path
}

func elemKey(elem types.Type) string {
	return "E:" + typeKey(elem)
}

func mapKeyName(mt types.Type) string {
	return "M:" + typeKey(mt.Underlying())
}

func keySort(t types.Type) Sort {
	ls := shapeOf(t)
	if len(ls) != 1 {
		panic(outsideSubset{"map key type " + t.String()})
	}
	return ls[0].sort
}

// derefStruct returns the struct type a pointer/named type points to, or nil.
func derefStruct(t types.Type) (types.Type, *types.Struct) {
	if p, ok := t.Underlying().(*types.Pointer); ok {
		if s, ok := p.Elem().Underlying().(*types.Struct); ok {
			return p.Elem(), s
		}
	}
	return nil, nil
}

// ---- reference tags: every object has one struct type for ever. rtag(r) is an uninterpreted, state-
// independent function from references to type ids; a non-nil pointer of static type *T read from
// memory, passed in, returned or freshly allocated satisfies rtag(r) == id(T). Quantified pointer
// variables of specifications are restricted to references of their type, so an invariant
// `forall n *Node :: allocated(n) ==> ...` says nothing about objects of other types (the allocation
// map itself is untyped) and nothing about memory that is not allocated yet.
func RefTag(r *Term) *Term {
	DeclareFun("rtag", []Sort{SInt}, SInt)
	return App("rtag", SInt, r)
}

func tagOfStruct(et types.Type) *Term {
	k := typeKey(et)
	h := uint32(2166136261)
	for i := 0; i < len(k); i++ {
		h ^= uint32(k[i])
		h *= 16777619
	}
	id := 1 + int64(h%1000003)
	if !isModuleStruct(et) {
		id += 3000000 // ids >= 2000000: not a struct type of the module under verification
	}
	return IntLit(id)
}

func isModuleStruct(t types.Type) bool {
	n, ok := t.(*types.Named)
	if !ok || n.Obj() == nil || n.Obj().Pkg() == nil {
		return false
	}
	_, isStruct := n.Underlying().(*types.Struct)
	return isStruct && strings.HasPrefix(n.Obj().Pkg().Path(), modulePath)
}

// refTagFact: v == nil || rtag(v) == id(T) for a pointer-to-struct value; True otherwise.
func refTagFact(v Val) *Term {
	if v.K != KScalar || v.T == nil || v.S.sort != SInt {
		return True
	}
	et, _ := derefStruct(v.T)
	if et == nil {
		return True
	}
	return Or(Eq(v.S, IntLit(0)), Eq(RefTag(v.S), tagOfStruct(et)))
}

func shortTypeName(t types.Type) string {
	s := typeKey(t)
	s = strings.TrimPrefix(s, "*")
	return s
}
