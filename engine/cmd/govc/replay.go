package main

// Replay of solver counterexamples against the real code (go test -overlay; nothing is written to /repo),
// and bounded stand-ins.

import (
	"bytes"
	"context"
	"encoding/json"
	"fmt"
	"os"
	"os/exec"
	"path/filepath"
	"regexp"
	"strings"
	"time"
)

// parseModel extracts integer-valued inputs from a (get-value) answer.
func parseModel(s string) map[string]string {
	out := map[string]string{}
	re := regexp.MustCompile(`\(p_([A-Za-z0-9_]+)!\d+ (\(- \d+\)|\d+|true|false)\)`)
	for _, m := range re.FindAllStringSubmatch(s, -1) {
		v := m[2]
		if strings.HasPrefix(v, "(- ") {
			v = "-" + strings.TrimSuffix(strings.TrimPrefix(v, "(- "), ")")
		}
		out[m[1]] = v
	}
	return out
}

type replayGen func(model map[string]string, o *Oblig) (pkgDir string, src string, testName string)

var replayGens = map[string]replayGen{}

func init() {
	listPanics := func(call string) replayGen {
		return func(m map[string]string, o *Oblig) (string, string, string) {
			get := func(k, d string) string {
				if v, ok := m[k]; ok {
					return v
				}
				return d
			}
			c := call
			for _, k := range []string{"start", "end", "index", "count"} {
				c = strings.ReplaceAll(c, "$"+k, get(k, "0"))
			}
			src := `package list

import "testing"

// model-guided replay: scalar arguments come from the solver model, the list is searched over sizes 0..6
func TestGovcReplay(t *testing.T) {
	for n := 0; n <= 6; n++ {
		l := New()
		for i := 0; i < n; i++ {
			l.RPush("k", []byte{byte('a' + i%2)})
		}
		func() {
			defer func() {
				if r := recover(); r != nil {
					t.Errorf("REPRODUCED: size=%d call=` + strings.ReplaceAll(c, `"`, `'`) + ` panicked: %v", n, r)
				}
			}()
			` + c + `
		}()
	}
}
`
			return "ds/list", src, "TestGovcReplay"
		}
	}
	replayGens["list.List.LRange"] = listPanics(`l.LRange("k", $start, $end)`)
	replayGens["list.List.Ltrim"] = listPanics(`l.Ltrim("k", $start, $end)`)
	replayGens["list.List.LSet"] = listPanics(`l.LSet("k", $index, []byte("x"))`)
	replayGens["list.List.LRem"] = listPanics(`l.LRem("k", $count, []byte("a"))`)
	replayGens["list.List.LRemNum"] = listPanics(`l.LRemNum("k", $count, []byte("a"))`)
	replayGens["list.List.LPop"] = listPanics(`l.LPop("k")`)
	replayGens["list.List.RPop"] = listPanics(`l.RPop("k")`)
	replayGens["nutsdb.IsExpired"] = func(m map[string]string, o *Oblig) (string, string, string) {
		src := `package nutsdb

import (
	"math/big"
	"testing"
	"time"
)

// replay of the solver model: compare IsExpired with the mathematical definition
func TestGovcReplay(t *testing.T) {
	var ttl uint32 = ` + strOr(m["ttl"], "0") + `
	var ts uint64 = ` + strOr(m["timestamp"], "0") + `
	now := time.Now().Unix()
	got := IsExpired(ttl, ts)
	sum := new(big.Int).Add(new(big.Int).SetUint64(ts), big.NewInt(int64(ttl)))
	want := !(ttl == 0 || big.NewInt(now).Cmp(sum) < 0)
	if got != want {
		t.Errorf("REPRODUCED: IsExpired(%d, %d) = %v at now=%d, mathematical definition gives %v", ttl, ts, got, now, want)
	}
}
`
		return ".", src, "TestGovcReplay"
	}
}

func replayOnRealCode(e *Engine, o *Oblig, r *Replay) {
	gen, ok := replayGens[o.Func]
	if !ok {
		r.Note += "; no replay harness for " + o.Func
		return
	}
	m := parseModel(r.Model)
	dir, src, test := gen(m, o)
	out, failed, err := goTestOverlay(e.repo, dir, "govc_replay_test.go", src, test, e.scratch)
	r.ReplayTest = src
	r.ReplayOut = tail(out, 2000)
	if err != nil {
		r.Note += "; replay could not run: " + err.Error()
		return
	}
	if failed && strings.Contains(out, "REPRODUCED") {
		r.Reproduced = true
		r.Note = "counterexample reproduced on the real code"
	}
}

func tail(s string, n int) string {
	if len(s) > n {
		return s[len(s)-n:]
	}
	return s
}

// goTestOverlay runs one in-package test file through -overlay.
func goTestOverlay(repo, pkgDir, fileName, src, testName, scratch string) (string, bool, error) {
	os.MkdirAll(scratch, 0o755)
	tmp := filepath.Join(scratch, "ov_"+sanitize(pkgDir)+"_"+fileName)
	if err := os.WriteFile(tmp, []byte(src), 0o644); err != nil {
		return "", false, err
	}
	target := filepath.Join(repo, pkgDir, fileName)
	ov := map[string]map[string]string{"Replace": {target: tmp}}
	ob, _ := json.Marshal(ov)
	ovf := filepath.Join(scratch, "ov_"+sanitize(pkgDir)+".json")
	os.WriteFile(ovf, ob, 0o644)
	// the thorough tier of the bounded stand-ins runs for minutes (BS4: 40 histories of 60 transactions with reopens)
	limit, tlimit := 180*time.Second, "120s"
	if os.Getenv("VERIF_TIER") == "thorough" {
		limit, tlimit = 2400*time.Second, "2300s"
	}
	ctx, cancel := context.WithTimeout(context.Background(), limit)
	defer cancel()
	cmd := exec.CommandContext(ctx, "go", "test", "-tags", "verif", "-overlay", ovf, "-vet=off", "-count=1", "-timeout", tlimit, "-run", "^"+testName+"$", "./"+pkgDir)
	cmd.Dir = repo
	cmd.Env = append(os.Environ(), "GOFLAGS=-mod=mod", "GOPROXY=off", "GOSUMDB=off", "GOTOOLCHAIN=local")
	var buf bytes.Buffer
	cmd.Stdout = &buf
	cmd.Stderr = &buf
	err := cmd.Run()
	out := buf.String()
	if err != nil {
		if _, isExit := err.(*exec.ExitError); isExit {
			if strings.Contains(out, "[build failed]") || strings.Contains(out, "[setup failed]") {
				return out, false, fmt.Errorf("replay test did not build")
			}
			return out, true, nil
		}
		return out, false, err
	}
	return out, false, nil
}

// runStandin runs a bounded stand-in (a Go test kept under /verif/standins) against the real code.
func runStandin(vdir, repo, name, tier string, seed int) (map[string]interface{}, bool) {
	rep := map[string]interface{}{"name": name, "label": "bounded (not counted as proved)"}
	meta := map[string]string{}
	if err := loadJSON(filepath.Join(vdir, "standins", name+".json"), &meta); err != nil {
		rep["error"] = err.Error()
		return rep, false
	}
	srcB, err := os.ReadFile(filepath.Join(vdir, "standins", meta["file"]))
	if err != nil {
		rep["error"] = err.Error()
		return rep, false
	}
	scratch, _ := os.MkdirTemp("", "govc-standin-")
	defer os.RemoveAll(scratch)
	os.Setenv("VERIF_TIER", tier)
	os.Setenv("VERIF_SEED", fmt.Sprint(seed))
	os.Setenv("GOVC_STANDIN_OUT", filepath.Join(scratch, "out.json"))
	out, failed, err := goTestOverlay(repo, meta["pkg"], "govc_standin_test.go", string(srcB), meta["test"], scratch)
	rep["bound"] = meta["bound"]
	var stats map[string]interface{}
	if loadJSON(filepath.Join(scratch, "out.json"), &stats) == nil {
		for k, v := range stats {
			rep[k] = v
		}
	}
	if err != nil {
		rep["error"] = err.Error() + ": " + tail(out, 1500)
		return rep, false
	}
	rep["passed"] = !failed
	if failed {
		rep["output"] = tail(out, 3000)
	}
	return rep, !failed
}
