package main

// Contract files (comment-only, //@ lines) and the spec expression parser.

import (
	"fmt"
	"os"
	"path/filepath"
	"regexp"
	"sort"
	"strconv"
	"strings"
	"unicode"
)

// ---------- spec expressions

type SExpr struct {
	Op   string // lit int|str|bool|nil, id, bin, un, call, field, index, slice, forall, exists, old, cond, typeassert
	Tok  string // operator, identifier, field name, literal text
	Args []*SExpr
	// quantifiers / let
	Vars  []string
	Types []string
	Pos   int
}

func (e *SExpr) String() string {
	if e == nil {
		return "<nil>"
	}
	switch e.Op {
	case "lit", "id":
		return e.Tok
	case "bin":
		return "(" + e.Args[0].String() + " " + e.Tok + " " + e.Args[1].String() + ")"
	case "un":
		return e.Tok + e.Args[0].String()
	case "field":
		return e.Args[0].String() + "." + e.Tok
	case "index":
		return e.Args[0].String() + "[" + e.Args[1].String() + "]"
	case "call":
		var as []string
		for _, a := range e.Args[1:] {
			as = append(as, a.String())
		}
		return e.Args[0].String() + "(" + strings.Join(as, ", ") + ")"
	case "forall", "exists":
		var vs []string
		for i := range e.Vars {
			vs = append(vs, e.Vars[i]+" "+e.Types[i])
		}
		return "(" + e.Op + " " + strings.Join(vs, ", ") + " :: " + e.Args[0].String() + ")"
	case "cond":
		return "(" + e.Args[0].String() + " ? " + e.Args[1].String() + " : " + e.Args[2].String() + ")"
	case "slice":
		s := e.Args[0].String() + "["
		if e.Args[1] != nil {
			s += e.Args[1].String()
		}
		s += ":"
		if e.Args[2] != nil {
			s += e.Args[2].String()
		}
		return s + "]"
	}
	return e.Op
}

type tok struct {
	k string // id int str op eof
	s string
	p int
}

func lexSpec(src string) ([]tok, error) {
	var out []tok
	i := 0
	for i < len(src) {
		c := src[i]
		switch {
		case c == ' ' || c == '\t' || c == '\n':
			i++
		case unicode.IsLetter(rune(c)) || c == '_' || c == '$':
			j := i
			for j < len(src) && (unicode.IsLetter(rune(src[j])) || unicode.IsDigit(rune(src[j])) || src[j] == '_' || src[j] == '$' || src[j] == '@') {
				j++
			}
			out = append(out, tok{"id", src[i:j], i})
			i = j
		case unicode.IsDigit(rune(c)):
			j := i
			for j < len(src) && (unicode.IsDigit(rune(src[j])) || src[j] == 'x' || (src[j] >= 'a' && src[j] <= 'f') || (src[j] >= 'A' && src[j] <= 'F')) {
				j++
			}
			out = append(out, tok{"int", src[i:j], i})
			i = j
		case c == '"':
			j := i + 1
			for j < len(src) && src[j] != '"' {
				if src[j] == '\\' {
					j++
				}
				j++
			}
			if j >= len(src) {
				return nil, fmt.Errorf("unterminated string")
			}
			s, err := strconv.Unquote(src[i : j+1])
			if err != nil {
				return nil, err
			}
			out = append(out, tok{"str", s, i})
			i = j + 1
		case c == '\'':
			j := i + 1
			for j < len(src) && src[j] != '\'' {
				if src[j] == '\\' {
					j++
				}
				j++
			}
			r, _, _, err := strconv.UnquoteChar(src[i+1:j], '\'')
			if err != nil {
				return nil, err
			}
			out = append(out, tok{"int", strconv.Itoa(int(r)), i})
			i = j + 1
		default:
			ops := []string{"<==>", "==>", "::", "&&", "||", "==", "!=", "<=", ">=", "<<", ">>", "<", ">", "+", "-", "*", "/", "%", "!", ".", "(", ")", "[", "]", ",", ":", "?", "{", "}", "&", "|", "^"}
			found := false
			for _, o := range ops {
				if strings.HasPrefix(src[i:], o) {
					out = append(out, tok{"op", o, i})
					i += len(o)
					found = true
					break
				}
			}
			if !found {
				return nil, fmt.Errorf("bad character %q at %d in %q", c, i, src)
			}
		}
	}
	out = append(out, tok{"eof", "", len(src)})
	return out, nil
}

type sparser struct {
	toks []tok
	i    int
	src  string
}

func (p *sparser) peek() tok { return p.toks[p.i] }
func (p *sparser) next() tok { t := p.toks[p.i]; p.i++; return t }
func (p *sparser) isOp(s string) bool {
	t := p.peek()
	return t.k == "op" && t.s == s
}
func (p *sparser) expect(s string) error {
	if !p.isOp(s) {
		return fmt.Errorf("expected %q at %d in %q (got %q)", s, p.peek().p, p.src, p.peek().s)
	}
	p.i++
	return nil
}

func ParseSpecExpr(src string) (*SExpr, error) {
	toks, err := lexSpec(src)
	if err != nil {
		return nil, err
	}
	p := &sparser{toks: toks, src: src}
	e, err := p.expr(0)
	if err != nil {
		return nil, err
	}
	if p.peek().k != "eof" {
		return nil, fmt.Errorf("trailing input at %d in %q", p.peek().p, src)
	}
	return e, nil
}

var binPrec = map[string]int{
	"<==>": 1, "==>": 2, "||": 3, "&&": 4,
	"==": 5, "!=": 5, "<": 5, "<=": 5, ">": 5, ">=": 5,
	"+": 6, "-": 6, "|": 6, "^": 6,
	"*": 7, "/": 7, "%": 7, "<<": 7, ">>": 7, "&": 7,
}

func (p *sparser) expr(min int) (*SExpr, error) {
	lhs, err := p.unary()
	if err != nil {
		return nil, err
	}
	for {
		t := p.peek()
		if t.k != "op" {
			break
		}
		if t.s == "?" && min <= 0 {
			p.next()
			a, err := p.expr(0)
			if err != nil {
				return nil, err
			}
			if err := p.expect(":"); err != nil {
				return nil, err
			}
			b, err := p.expr(0)
			if err != nil {
				return nil, err
			}
			lhs = &SExpr{Op: "cond", Args: []*SExpr{lhs, a, b}, Pos: t.p}
			continue
		}
		prec, ok := binPrec[t.s]
		if !ok || prec < min {
			break
		}
		p.next()
		nextMin := prec + 1
		if t.s == "==>" {
			nextMin = prec // right assoc
		}
		rhs, err := p.expr(nextMin)
		if err != nil {
			return nil, err
		}
		lhs = &SExpr{Op: "bin", Tok: t.s, Args: []*SExpr{lhs, rhs}, Pos: t.p}
	}
	return lhs, nil
}

func (p *sparser) typeStr() (string, error) {
	// a type: sequence of * [] map[..] identifiers and dots until , or :: or )
	var sb strings.Builder
	depth := 0
	for {
		t := p.peek()
		if t.k == "eof" {
			break
		}
		if t.k == "op" && depth == 0 && (t.s == "," || t.s == "::" || t.s == ")") {
			break
		}
		if t.k == "op" && t.s == "[" {
			depth++
		}
		if t.k == "op" && t.s == "]" {
			depth--
		}
		sb.WriteString(t.s)
		p.next()
	}
	if sb.Len() == 0 {
		return "", fmt.Errorf("expected type at %d in %q", p.peek().p, p.src)
	}
	return sb.String(), nil
}

func (p *sparser) unary() (*SExpr, error) {
	t := p.peek()
	if t.k == "op" && (t.s == "!" || t.s == "-") {
		p.next()
		a, err := p.unary()
		if err != nil {
			return nil, err
		}
		return &SExpr{Op: "un", Tok: t.s, Args: []*SExpr{a}, Pos: t.p}, nil
	}
	if t.k == "id" && (t.s == "forall" || t.s == "exists") {
		p.next()
		q := &SExpr{Op: t.s, Pos: t.p}
		for {
			v := p.next()
			if v.k != "id" {
				return nil, fmt.Errorf("expected bound variable at %d in %q", v.p, p.src)
			}
			ty, err := p.typeStr()
			if err != nil {
				return nil, err
			}
			q.Vars = append(q.Vars, v.s)
			q.Types = append(q.Types, ty)
			if p.isOp(",") {
				p.next()
				continue
			}
			break
		}
		if err := p.expect("::"); err != nil {
			return nil, err
		}
		body, err := p.expr(0)
		if err != nil {
			return nil, err
		}
		q.Args = []*SExpr{body}
		return q, nil
	}
	return p.postfix()
}

func (p *sparser) postfix() (*SExpr, error) {
	t := p.next()
	var e *SExpr
	switch {
	case t.k == "int":
		e = &SExpr{Op: "lit", Tok: t.s, Pos: t.p, Vars: []string{"int"}}
	case t.k == "str":
		e = &SExpr{Op: "lit", Tok: t.s, Pos: t.p, Vars: []string{"str"}}
	case t.k == "id":
		switch t.s {
		case "true", "false":
			e = &SExpr{Op: "lit", Tok: t.s, Pos: t.p, Vars: []string{"bool"}}
		case "nil":
			e = &SExpr{Op: "lit", Tok: t.s, Pos: t.p, Vars: []string{"nil"}}
		default:
			e = &SExpr{Op: "id", Tok: t.s, Pos: t.p}
		}
	case t.k == "op" && t.s == "(":
		in, err := p.expr(0)
		if err != nil {
			return nil, err
		}
		if err := p.expect(")"); err != nil {
			return nil, err
		}
		e = in
	case t.k == "op" && t.s == "[":
		// []byte(x) style conversion: parse "[]T" then call
		if err := p.expect("]"); err != nil {
			return nil, err
		}
		id := p.next()
		e = &SExpr{Op: "id", Tok: "[]" + id.s, Pos: t.p}
	default:
		return nil, fmt.Errorf("unexpected %q at %d in %q", t.s, t.p, p.src)
	}
	for {
		t := p.peek()
		if t.k != "op" {
			break
		}
		switch t.s {
		case ".":
			p.next()
			f := p.next()
			if f.k != "id" {
				return nil, fmt.Errorf("expected field name at %d in %q", f.p, p.src)
			}
			e = &SExpr{Op: "field", Tok: f.s, Args: []*SExpr{e}, Pos: t.p}
		case "[":
			p.next()
			var lo, hi *SExpr
			var err error
			if !p.isOp(":") {
				lo, err = p.expr(0)
				if err != nil {
					return nil, err
				}
			}
			if p.isOp(":") {
				p.next()
				if !p.isOp("]") {
					hi, err = p.expr(0)
					if err != nil {
						return nil, err
					}
				}
				if err := p.expect("]"); err != nil {
					return nil, err
				}
				e = &SExpr{Op: "slice", Args: []*SExpr{e, lo, hi}, Pos: t.p}
			} else {
				if err := p.expect("]"); err != nil {
					return nil, err
				}
				e = &SExpr{Op: "index", Args: []*SExpr{e, lo}, Pos: t.p}
			}
		case "(":
			p.next()
			call := &SExpr{Op: "call", Args: []*SExpr{e}, Pos: t.p}
			for !p.isOp(")") {
				a, err := p.expr(0)
				if err != nil {
					return nil, err
				}
				call.Args = append(call.Args, a)
				if p.isOp(",") {
					p.next()
				} else {
					break
				}
			}
			if err := p.expect(")"); err != nil {
				return nil, err
			}
			e = call
		default:
			return e, nil
		}
	}
	return e, nil
}

// ---------- contracts

type Clause struct {
	Kind string // requires ensures invariant assert modifies ...
	Tags []string
	Expr *SExpr
	Text string
	File string
	Line int
}

type AtClause struct {
	Where  string // "store", "call", "return", "entry"
	Target string // local / callee name
	Nth    int    // 0 = every
	Loop   int    // 0 = anywhere
	Kind   string // assert | assume
	Clause Clause
}

type BranchClause struct {
	N      int
	Rel    string // iff implies implied-by
	Clause Clause
	Assume *SExpr
}

type FuncContract struct {
	Pkg        string // package path
	DeclPkg    string // package of the contract file
	Name       string // Recv.Name or Name
	File       string
	Line       int
	Extern     bool   // dependency contract: assumed
	Assumed    bool   // module function whose body is not verified (stated assumption)
	AssumedWhy string
	Implements string
	Requires   []Clause
	Ensures    []Clause
	Modifies   []Clause
	HasMod     bool
	ModTags    []string
	Safety    map[string][]string // "panics"|"overflow" -> tags
	Loops      int                 // -1 unspecified
	LoopInv    map[int][]Clause
	LoopMod    map[int][]Clause
	LoopHasMod map[int]bool
	Ats        []AtClause
	Branches   []BranchClause
	Wraps      map[int]bool
	Tags       []string // all tags mentioned
	Params     []string // for extern / abstract: parameter names
	Results    []string
	Inline     bool // always inline at call sites (no contract use)
	Lemmas     []Clause // "by" hints: extra assumptions proved elsewhere (lemma instances)
	Pure       bool
}

type SpecFunc struct {
	Name    string
	Params  []string
	PTypes  []string
	RType   string
	Body    *SExpr // nil for uninterpreted
	Pkg     string
	Text    string
}

type SpecAxiom struct {
	Name string
	Expr *SExpr
	Pkg  string
	Text string
	Line int
	File string
}

type GhostVar struct {
	Name string
	Type string
	Pkg  string
}

type Scenario struct {
	Name string
	Pkg  string
	Tags []string
}

type Contracts struct {
	Funcs     map[string]*FuncContract // key: pkgpath + "." + name
	SpecFuncs map[string]*SpecFunc     // key: pkgpath + "." + name (also looked up by bare name)
	Axioms    []*SpecAxiom
	Ghosts    map[string]*GhostVar
	Order     []string
	Guarded   map[string]string // heap key of a guarded field -> ghost lock variable
}

func pkgNameOf(path string) string {
	if i := strings.LastIndex(path, "/"); i >= 0 {
		return path[i+1:]
	}
	return path
}

var tagRe = regexp.MustCompile(`^(\w[\w-]*)\[([A-Za-z0-9_, ]+)\]`)

func splitTags(word string) (string, []string) {
	if m := tagRe.FindStringSubmatch(word); m != nil {
		var tags []string
		for _, t := range strings.Split(m[2], ",") {
			tags = append(tags, strings.TrimSpace(t))
		}
		return m[1], tags
	}
	return word, nil
}

var clauseKeywords = map[string]bool{
	"spec": true, "func": true, "extern": true, "requires": true, "ensures": true, "modifies": true,
	"safety": true, "loops": true, "loop": true, "at": true, "branch": true, "wraps": true,
	"assumed": true, "implements": true, "inline": true, "by": true, "pure": true, "end": true,
}

type rawClause struct {
	text string
	file string
	line int
}

// readContractFile joins continuation lines into clauses.
func readContractFile(path string) ([]rawClause, error) {
	data, err := os.ReadFile(path)
	if err != nil {
		return nil, err
	}
	var out []rawClause
	for i, ln := range strings.Split(string(data), "\n") {
		t := strings.TrimSpace(ln)
		if !strings.HasPrefix(t, "//@") {
			continue
		}
		body := strings.TrimSpace(t[3:])
		if body == "" {
			continue
		}
		// strip trailing "// comment" that is outside string literals
		if idx := commentIndex(body); idx >= 0 {
			body = strings.TrimSpace(body[:idx])
		}
		if body == "" {
			continue
		}
		first := body
		if j := strings.IndexAny(body, " \t(["); j >= 0 {
			first = body[:j]
		}
		if clauseKeywords[first] {
			out = append(out, rawClause{body, path, i + 1})
		} else {
			if len(out) == 0 {
				return nil, fmt.Errorf("%s:%d: continuation without clause", path, i+1)
			}
			out[len(out)-1].text += " " + body
		}
	}
	return out, nil
}

func commentIndex(s string) int {
	inStr := false
	for i := 0; i+1 < len(s); i++ {
		if s[i] == '"' && (i == 0 || s[i-1] != '\\') {
			inStr = !inStr
		}
		if !inStr && s[i] == '/' && s[i+1] == '/' && (i == 0 || s[i-1] == ' ') {
			return i
		}
	}
	return -1
}

func LoadContracts(dirs map[string]string) (*Contracts, error) {
	cs := &Contracts{Funcs: map[string]*FuncContract{}, SpecFuncs: map[string]*SpecFunc{}, Ghosts: map[string]*GhostVar{}}
	var pkgs []string
	for p := range dirs {
		pkgs = append(pkgs, p)
	}
	sort.Strings(pkgs)
	for _, pkg := range pkgs {
		files, _ := filepath.Glob(filepath.Join(dirs[pkg], "verif_contracts*.go"))
		sort.Strings(files)
		for _, f := range files {
			raw, err := readContractFile(f)
			if err != nil {
				return nil, err
			}
			if err := cs.parseFile(pkg, raw); err != nil {
				return nil, err
			}
		}
	}
	return cs, nil
}

func mkClause(kind string, tags []string, text string, rc rawClause) (Clause, error) {
	e, err := ParseSpecExpr(text)
	if err != nil {
		return Clause{}, fmt.Errorf("%s:%d: %v", rc.file, rc.line, err)
	}
	return Clause{Kind: kind, Tags: tags, Expr: e, Text: text, File: rc.file, Line: rc.line}, nil
}

func (cs *Contracts) parseFile(pkg string, raw []rawClause) error {
	var cur *FuncContract
	addTags := func(tags []string) {
		if cur == nil {
			return
		}
		for _, t := range tags {
			found := false
			for _, x := range cur.Tags {
				if x == t {
					found = true
				}
			}
			if !found {
				cur.Tags = append(cur.Tags, t)
			}
		}
	}
	for _, rc := range raw {
		word := rc.text
		rest := ""
		if j := strings.IndexAny(rc.text, " \t"); j >= 0 {
			word, rest = rc.text[:j], strings.TrimSpace(rc.text[j+1:])
		}
		kw, tags := splitTags(word)
		fail := func(format string, a ...interface{}) error {
			return fmt.Errorf("%s:%d: %s", rc.file, rc.line, fmt.Sprintf(format, a...))
		}
		switch kw {
		case "end":
			cur = nil
		case "spec":
			cur = nil
			if err := cs.parseSpecDecl(pkg, rest, rc); err != nil {
				return err
			}
		case "func", "extern":
			// func Recv.Name [ (p1, p2) [ (r1, r2) ] ]
			name := rest
			params, results := []string(nil), []string(nil)
			if j := strings.Index(rest, "("); j >= 0 {
				name = strings.TrimSpace(rest[:j])
				groups := regexp.MustCompile(`\(([^)]*)\)`).FindAllStringSubmatch(rest[j:], -1)
				split := func(s string) []string {
					var out []string
					for _, x := range strings.Split(s, ",") {
						x = strings.TrimSpace(x)
						if x != "" {
							out = append(out, strings.Fields(x)[0])
						}
					}
					return out
				}
				if len(groups) > 0 {
					params = split(groups[0][1])
				}
				if len(groups) > 1 {
					results = split(groups[1][1])
				}
			}
			fpkg := pkg
			if kw == "extern" {
				// name is importpath.Func or importpath.Type.Method ; last path element decides
				k := strings.LastIndex(name, "/")
				dot := strings.Index(name[k+1:], ".")
				if dot < 0 {
					return fail("extern needs pkgpath.Name")
				}
				fpkg = name[:k+1+dot]
				name = name[k+1+dot+1:]
			}
			cur = &FuncContract{Pkg: fpkg, DeclPkg: pkg, Name: name, File: rc.file, Line: rc.line, Extern: kw == "extern",
				Safety: map[string][]string{}, Loops: -1, LoopInv: map[int][]Clause{}, LoopMod: map[int][]Clause{},
				LoopHasMod: map[int]bool{}, Wraps: map[int]bool{}, Params: params, Results: results}
			key := fpkg + "." + name
			if _, dup := cs.Funcs[key]; dup {
				return fail("duplicate contract for %s", key)
			}
			cs.Funcs[key] = cur
			cs.Order = append(cs.Order, key)
		default:
			if cur == nil {
				return fail("clause %q outside a func contract", kw)
			}
			addTags(tags)
			switch kw {
			case "requires", "ensures":
				c, err := mkClause(kw, tags, rest, rc)
				if err != nil {
					return err
				}
				if kw == "requires" {
					cur.Requires = append(cur.Requires, c)
				} else {
					cur.Ensures = append(cur.Ensures, c)
				}
			case "by":
				c, err := mkClause(kw, tags, rest, rc)
				if err != nil {
					return err
				}
				cur.Lemmas = append(cur.Lemmas, c)
			case "modifies":
				cur.HasMod = true
				cur.ModTags = append(cur.ModTags, tags...)
				if rest != "nothing" {
					for _, part := range splitTop(rest, ',') {
						c, err := mkClause(kw, tags, part, rc)
						if err != nil {
							return err
						}
						cur.Modifies = append(cur.Modifies, c)
					}
				}
			case "safety":
				for _, w := range strings.Fields(rest) {
					cur.Safety[w] = append(cur.Safety[w], tags...)
					if len(tags) == 0 {
						cur.Safety[w] = append(cur.Safety[w], []string{}...)
					}
					if _, ok := cur.Safety[w]; !ok || cur.Safety[w] == nil {
						cur.Safety[w] = []string{}
					}
				}
			case "loops":
				n, err := strconv.Atoi(rest)
				if err != nil {
					return fail("loops needs a number")
				}
				cur.Loops = n
			case "loop":
				// loop K: invariant[tags] e   |  loop K: modifies a, b
				m := regexp.MustCompile(`^(\d+)\s*:\s*(\S+)\s*(.*)$`).FindStringSubmatch(rest)
				if m == nil {
					return fail("bad loop clause")
				}
				k, _ := strconv.Atoi(m[1])
				sub, stags := splitTags(m[2])
				addTags(stags)
				switch sub {
				case "invariant":
					c, err := mkClause("invariant", stags, m[3], rc)
					if err != nil {
						return err
					}
					cur.LoopInv[k] = append(cur.LoopInv[k], c)
				case "modifies":
					cur.LoopHasMod[k] = true
					if strings.TrimSpace(m[3]) != "nothing" {
						for _, part := range splitTop(m[3], ',') {
							c, err := mkClause("modifies", stags, part, rc)
							if err != nil {
								return err
							}
							cur.LoopMod[k] = append(cur.LoopMod[k], c)
						}
					}
				default:
					return fail("unknown loop clause %q", sub)
				}
			case "at":
				// at store X [in loop K]: assert[tags] e   |  at call f [#n]: assert e | at return: assert e
				m := regexp.MustCompile(`^(stored|store|mapupdate|call|return|entry)\s*([\w.$]*)\s*(?:#(\d+))?\s*(?:in loop (\d+))?\s*:\s*(\S+)\s+(.*)$`).FindStringSubmatch(rest)
				if m == nil {
					return fail("bad at clause")
				}
				sub, stags := splitTags(m[5])
				addTags(stags)
				c, err := mkClause(sub, stags, m[6], rc)
				if err != nil {
					return err
				}
				ac := AtClause{Where: m[1], Target: m[2], Kind: sub, Clause: c}
				if m[3] != "" {
					ac.Nth, _ = strconv.Atoi(m[3])
				}
				if m[4] != "" {
					ac.Loop, _ = strconv.Atoi(m[4])
				}
				cur.Ats = append(cur.Ats, ac)
			case "branch":
				m := regexp.MustCompile(`^(\d+)\s*:\s*(\S+)\s+(.*)$`).FindStringSubmatch(rest)
				if m == nil {
					return fail("bad branch clause")
				}
				n, _ := strconv.Atoi(m[1])
				sub, stags := splitTags(m[2])
				addTags(stags)
				body := m[3]
				var assume *SExpr
				if j := strings.Index(body, " assuming "); j >= 0 {
					var err error
					assume, err = ParseSpecExpr(body[j+len(" assuming "):])
					if err != nil {
						return fail("%v", err)
					}
					body = body[:j]
				}
				c, err := mkClause("branch", stags, body, rc)
				if err != nil {
					return err
				}
				cur.Branches = append(cur.Branches, BranchClause{N: n, Rel: sub, Clause: c, Assume: assume})
			case "wraps":
				for _, w := range strings.Fields(rest) {
					n, err := strconv.Atoi(w)
					if err != nil {
						return fail("wraps needs numbers")
					}
					cur.Wraps[n] = true
				}
			case "assumed":
				cur.Assumed = true
				cur.AssumedWhy = rest
			case "implements":
				cur.Implements = rest
			case "inline":
				cur.Inline = true
			case "pure":
				cur.Pure = true
			default:
				return fail("unknown clause %q", kw)
			}
		}
	}
	return nil
}

// splitTop splits on sep at bracket depth 0.
func splitTop(s string, sep byte) []string {
	var out []string
	depth := 0
	last := 0
	for i := 0; i < len(s); i++ {
		switch s[i] {
		case '(', '[':
			depth++
		case ')', ']':
			depth--
		default:
			if s[i] == sep && depth == 0 {
				out = append(out, strings.TrimSpace(s[last:i]))
				last = i + 1
			}
		}
	}
	out = append(out, strings.TrimSpace(s[last:]))
	return out
}

func (cs *Contracts) parseSpecDecl(pkg, rest string, rc rawClause) error {
	fail := func(format string, a ...interface{}) error {
		return fmt.Errorf("%s:%d: %s", rc.file, rc.line, fmt.Sprintf(format, a...))
	}
	switch {
	case strings.HasPrefix(rest, "func "), strings.HasPrefix(rest, "fun "):
		// spec func name(p T, q U) R [= body]
		m := regexp.MustCompile(`^fun[c]?\s+(\w+)\s*\(([^)]*)\)\s*([^=]*?)\s*(?:=\s*(.*))?$`).FindStringSubmatch(rest)
		if m == nil {
			return fail("bad spec func")
		}
		sf := &SpecFunc{Name: m[1], RType: strings.TrimSpace(m[3]), Pkg: pkg, Text: rest}
		if strings.TrimSpace(m[2]) != "" {
			lastType := ""
			parts := splitTop(m[2], ',')
			// allow "a, b int"
			for i := len(parts) - 1; i >= 0; i-- {
				fs := strings.Fields(parts[i])
				if len(fs) >= 2 {
					lastType = strings.Join(fs[1:], " ")
				}
				if lastType == "" {
					return fail("parameter %q lacks a type", parts[i])
				}
				sf.Params = append([]string{fs[0]}, sf.Params...)
				sf.PTypes = append([]string{lastType}, sf.PTypes...)
			}
		}
		if m[4] != "" {
			e, err := ParseSpecExpr(m[4])
			if err != nil {
				return fail("%v", err)
			}
			sf.Body = e
		}
		cs.SpecFuncs[pkg+"."+sf.Name] = sf
	case strings.HasPrefix(rest, "axiom "):
		m := regexp.MustCompile(`^axiom\s+(\w+)\s*:\s*(.*)$`).FindStringSubmatch(rest)
		if m == nil {
			return fail("bad axiom")
		}
		e, err := ParseSpecExpr(m[2])
		if err != nil {
			return fail("%v", err)
		}
		cs.Axioms = append(cs.Axioms, &SpecAxiom{Name: m[1], Expr: e, Pkg: pkg, Text: m[2], Line: rc.line, File: rc.file})
	case strings.HasPrefix(rest, "ghost "):
		fs := strings.Fields(rest)
		if len(fs) < 3 {
			return fail("bad ghost decl")
		}
		cs.Ghosts[fs[1]] = &GhostVar{Name: fs[1], Type: strings.Join(fs[2:], " "), Pkg: pkg}
	case strings.HasPrefix(rest, "guarded "):
		// spec guarded T.f, T.g, ... by <ghost>: fields that may be read only with <ghost> >= 1 and written
		// only with <ghost> == 2 (lock typestate); checked in functions whose contract says `safety[..] locks`
		m := regexp.MustCompile(`^guarded\s+(.*)\s+by\s+(\w+)$`).FindStringSubmatch(rest)
		if m == nil {
			return fail("bad guarded declaration")
		}
		if cs.Guarded == nil {
			cs.Guarded = map[string]string{}
		}
		for _, f := range strings.Split(m[1], ",") {
			f = strings.TrimSpace(f)
			if f == "" {
				continue
			}
			// key as used by the heap model: F:<pkgname>.<Type>.<field>
			cs.Guarded["F:"+pkgNameOf(pkg)+"."+f] = m[2]
		}
	default:
		return fail("unknown spec declaration")
	}
	return nil
}
