package main

import (
	"os"
	"fmt"
	"go/types"
	"strings"

	"golang.org/x/tools/go/ssa"
)

func (fr *Frame) execCall(ins *ssa.Call, c *ssa.CallCommon, st *State) Val {
	return fr.execCallCommon(ins, c, st, func(v ssa.Value) Val { return fr.val(v, st) })
}

func fullFuncName(f *ssa.Function) string {
	// pkgpath.Recv.Name  or pkgpath.Name
	if f.Signature.Recv() != nil {
		rt := f.Signature.Recv().Type()
		if p, ok := rt.(*types.Pointer); ok {
			rt = p.Elem()
		}
		if n, ok := rt.(*types.Named); ok {
			pk := ""
			if n.Obj().Pkg() != nil {
				pk = n.Obj().Pkg().Path()
			}
			return pk + "." + n.Obj().Name() + "." + f.Name()
		}
	}
	if f.Pkg != nil {
		return f.Pkg.Pkg.Path() + "." + f.Name()
	}
	if f.Object() != nil && f.Object().Pkg() != nil {
		return f.Object().Pkg().Path() + "." + f.Name()
	}
	return f.String()
}

func (fr *Frame) execCallCommon(ins ssa.Instruction, c *ssa.CallCommon, st *State, val func(ssa.Value) Val) Val {
	eng := fr.run.eng
	var args []Val
	resT := c.Signature().Results()
	for _, a := range c.Args {
		args = append(args, val(a))
	}
	if _, isBuiltin := c.Value.(*ssa.Builtin); !isBuiltin && fr.contract != nil {
		// anchored assertions at this call may mention the actual arguments as $arg0, $arg1, ...
		fr.hookVars = map[string]Val{}
		for i, a := range args {
			fr.hookVars[fmt.Sprintf("$arg%d", i)] = a
		}
		fr.atHook("call", calleeName(c), ins, st)
		fr.hookVars = nil
	}
	if c.IsInvoke() {
		recv := val(c.Value)
		return fr.invoke(ins, c, recv, args, st)
	}
	if b, ok := c.Value.(*ssa.Builtin); ok {
		return fr.builtin(ins, b, c, args, st)
	}
	callee := c.StaticCallee()
	if callee == nil {
		fv := val(c.Value)
		if fv.K == KFunc && fv.Fn != nil {
			callee = fv.Fn
			args = append(args, fv.Cl...) // closure bindings become trailing free-var args (handled in inlineCall)
			return fr.callFunction(ins, callee, args[:len(args)-len(fv.Cl)], fv.Cl, st)
		}
		// unknown function value: havoc everything
		if dc := eng.contracts.Funcs[fr.fn.Pkg.Pkg.Path()+".$dynamic."+fr.fn.Name()]; dc != nil {
			return fr.applyContract(ins, dc, "$dynamic", nil, args, resT, st)
		}
		panic(outsideSubset{"call of unknown function value in " + fr.fn.Name()})
	}
	return fr.callFunction(ins, callee, args, nil, st)
}

func resultType(sig *types.Signature) types.Type {
	switch sig.Results().Len() {
	case 0:
		return nil
	case 1:
		return sig.Results().At(0).Type()
	}
	return sig.Results()
}

func (fr *Frame) callFunction(ins ssa.Instruction, callee *ssa.Function, args []Val, closure []Val, st *State) Val {
	eng := fr.run.eng
	name := fullFuncName(callee)
	if strings.HasPrefix(callee.Name(), "ssa:") || name == "ssa:deferstack" {
		return Val{K: KUnit}
	}
	if m, ok := externModels[name]; ok {
		return m(fr, ins, callee, args, st)
	}
	if c := eng.contracts.Funcs[name]; c != nil && !c.Inline {
		if c.Assumed || c.Extern {
			fr.run.assumedCallees[name] = true
		} else {
			eng.noteCallee(fr.run.name, name)
		}
		return fr.applyContract(ins, c, callee.Name(), callee, args, callee.Signature.Results(), st)
	}
	// inline module functions without loops
	if callee.Blocks != nil && eng.inModule(callee) {
		if fr.depth >= 4 {
			panic(outsideSubset{"inlining depth exceeded at " + name})
		}
		if hasLoop(callee) {
			panic(outsideSubset{"callee " + name + " has loops and no contract"})
		}
		inlName := callee.Name()
		if ord := fr.callOrd[callee.Name()][ins]; ord > 1 {
			inlName = fmt.Sprintf("%s~%d", callee.Name(), ord)
		}
		sub := newFrame(fr.run, callee, fr.depth+1, fr.prefix+"inl."+inlName+".", nil)
		sub.dry = fr.dry
		for i, fv := range callee.FreeVars {
			if i < len(closure) {
				sub.regs[fv] = closure[i]
			}
		}
		fr.run.inlined[name] = true
		out, ret := sub.exec(st.clone(), args)
		if out == nil {
			st.pc = False
			return Val{K: KUnit}
		}
		*st = *out
		return ret
	}
	panic(outsideSubset{"call to " + name + " (no contract, no model)"})
}

func hasLoop(f *ssa.Function) bool {
	for _, b := range f.Blocks {
		for _, s := range b.Succs {
			if s.Dominates(b) {
				return true
			}
		}
	}
	return false
}

func (fr *Frame) invoke(ins ssa.Instruction, c *ssa.CallCommon, recv Val, args []Val, st *State) Val {
	eng := fr.run.eng
	it := c.Value.Type()
	n, ok := it.(*types.Named)
	if !ok {
		if c.Method.Name() == "Error" {
			return scalar(Fresh("errstr", SStr), types.Typ[types.String])
		}
		panic(outsideSubset{"invoke on unnamed interface"})
	}
	pk := ""
	if n.Obj().Pkg() != nil {
		pk = n.Obj().Pkg().Path()
	}
	name := pk + "." + n.Obj().Name() + "." + c.Method.Name()
	if n.Obj().Name() == "error" && c.Method.Name() == "Error" {
		return scalar(Fresh("errstr", SStr), types.Typ[types.String])
	}
	fr.panicCheck("panic.nil", ins, st, Neq(recv.F[0].S, IntLit(0)), "method call on nil interface")
	ct := eng.contracts.Funcs[name]
	if ct == nil {
		panic(outsideSubset{"invoke " + name + " without interface contract"})
	}
	fr.run.assumedCallees[name+" (interface contract; implementations checked separately)"] = true
	all := append([]Val{recv}, args...)
	return fr.applyContract(ins, ct, c.Method.Name(), nil, all, c.Signature().Results(), st)
}

// ---------- contracts at call sites

func (fr *Frame) applyContract(ins ssa.Instruction, c *FuncContract, short string, callee *ssa.Function, args []Val, resT *types.Tuple, st *State) Val {
	eng := fr.run.eng
	env := &SpecEnv{eng: eng, pkg: c.Pkg, cur: st, vars: map[string]Val{}, fr: nil}
	// bind parameters
	names := c.Params
	if callee != nil && len(c.Params) == 0 {
		names = nil
		for _, p := range callee.Params {
			names = append(names, p.Name())
		}
	}
	if len(names) != len(args) {
		if len(names) == 0 {
			for i := range args {
				names = append(names, fmt.Sprintf("arg%d", i))
			}
		} else {
			panic(outsideSubset{fmt.Sprintf("contract %s.%s: %d parameter names for %d arguments", c.Pkg, c.Name, len(names), len(args))})
		}
	}
	for i, n := range names {
		env.vars[n] = args[i]
	}
	env.pkgScope = eng.scopeOf(c.DeclPkg, callee)
	env.pkg = c.DeclPkg
	ord := fr.callOrd[short][ins]
	// preconditions
	for j, rq := range c.Requires {
		g := env.evalBool(rq.Expr)
		if !fr.dryMode() {
			tags := rq.Tags
			if len(tags) == 0 && fr.run.contract != nil {
				tags = nil
			}
			// a precondition that is a conjunction of several quantified facts (structure invariants) is
			// discharged conjunct by conjunct: each query then has one negated universal to refute
			nq := 0
			for _, cj := range conjuncts(g) {
				if hasQuant(cj) {
					nq++
				}
			}
			if cjs := conjuncts(g); nq >= 2 {
				var plain []*Term
				k := 0
				for _, cj := range cjs {
					if hasQuant(cj) {
						k++
						fr.oblige("call."+short, ord, fmt.Sprintf(".requires[%d]/q%d", j+1, k), tags, st, cj, "precondition of "+c.Name+" (quantified conjunct): "+rq.Text, ins.Pos())
					} else {
						plain = append(plain, cj)
					}
				}
				fr.oblige("call."+short, ord, fmt.Sprintf(".requires[%d]", j+1), tags, st, And(plain...), "precondition of "+c.Name+": "+rq.Text, ins.Pos())
			} else {
				fr.oblige("call."+short, ord, fmt.Sprintf(".requires[%d]", j+1), tags, st, g, "precondition of "+c.Name+": "+rq.Text, ins.Pos())
			}
		}
		st.assume(g)
	}
	pre := st.clone()
	env.old = pre
	// havoc modified locations
	if c.HasMod && len(c.Modifies) > 0 || !c.HasMod && false {
		locs := env.evalModLocs(c.Modifies)
		fr.havocLocs(st, locs, "call_"+short)
	}
	if !c.Pure {
		oldAlloc := st.H(allocKey, allocSort)
		havocAlloc(st, c.Extern)
		if !c.Extern && (callee != nil || short != "$dynamic") {
			// what the callee's code can allocate (alloceffect.go); unknown (nil) when it calls function values.
			// For an interface method: the union over the module's methods of that name.
			var set allocSet
			if callee != nil {
				set = eng.allocTypes(callee)
			} else {
				set = eng.allocTypesByMethod(short)
			}
			if os.Getenv("GOVC_DEBUG_ALLOC") != "" {
				var ks []string
				for k := range set {
					ks = append(ks, k)
				}
				fmt.Fprintf(os.Stderr, "  alloc effect of %s: known=%v %v\n", short, set != nil, ks)
			}
			if set != nil && len(set) <= 40 {
				st.assume(allocTagFact(oldAlloc, st.H(allocKey, allocSort), set))
			}
		}
	}
	// results
	var res Val
	var resNames []string
	switch resT.Len() {
	case 0:
		res = Val{K: KUnit}
	case 1:
		res = freshVal("ret_"+short, resT.At(0).Type())
		resNames = []string{resT.At(0).Name()}
	default:
		res = Val{K: KTuple, T: resT}
		for i := 0; i < resT.Len(); i++ {
			res.F = append(res.F, freshVal(fmt.Sprintf("ret_%s_%d", short, i), resT.At(i).Type()))
			resNames = append(resNames, resT.At(i).Name())
		}
	}
	if len(c.Results) > 0 {
		resNames = c.Results
	}
	st.assume(wellTyped(res, st))
	st.assumeAllocated(res)
	bindResults(env, res, resNames, resT)
	env.cur = st
	for _, en := range c.Ensures {
		st.assume(env.evalBool(en.Expr))
	}
	return res
}

func bindResults(env *SpecEnv, res Val, names []string, resT *types.Tuple) {
	switch resT.Len() {
	case 0:
	case 1:
		env.vars["result"] = res
		if len(names) > 0 && names[0] != "" && names[0] != "_" {
			env.vars[names[0]] = res
		}
	default:
		for i := 0; i < resT.Len(); i++ {
			env.vars[fmt.Sprintf("result%d", i)] = res.F[i]
			if i < len(names) && names[i] != "" && names[i] != "_" {
				env.vars[names[i]] = res.F[i]
			}
		}
	}
}

// foreignTag is the rtag of objects that are not of any struct type of the module (error values, objects allocated by dependencies).
const foreignTag = 2000003

// havocAlloc lets a callee allocate: the allocation maps grow monotonically.
func havocAlloc(st *State, foreign bool) {
	for _, k := range []string{allocKey, allocAKey} {
		old := st.H(k, allocSort)
		nw := Fresh("alloc", allocSort)
		st.assume(Not(Select(nw, IntLit(0)))) // nil is never an allocated object
		r := Bound("r", SInt)
		st.assume(Forall([]*Term{r}, Implies(Select(old, r), Select(nw, r)), []*Term{Select(nw, r)}, []*Term{Select(old, r)}))
		if foreign && k == allocKey {
			// a dependency (extern contract) cannot allocate objects of this module's struct types:
			// whatever it allocates has a tag outside the module's range (>= 2000000)
			q := Bound("r", SInt)
			st.assume(Forall([]*Term{q}, Implies(And(Select(nw, q), Not(Select(old, q))), Ge(RefTag(q), IntLit(2000000))), []*Term{Select(nw, q)}))
		}
		st.setH(k, nw)
	}
}

// ---------- builtins

func (fr *Frame) builtin(ins ssa.Instruction, b *ssa.Builtin, c *ssa.CallCommon, args []Val, st *State) Val {
	it := types.Typ[types.Int]
	switch b.Name() {
	case "len":
		a := args[0]
		switch c.Args[0].Type().Underlying().(type) {
		case *types.Slice:
			return scalar(a.F[2].S, it)
		case *types.Basic:
			return scalar(Slen(a.S), it)
		case *types.Map:
			return scalar(mapLen(st, mapInfoOf(c.Args[0].Type()), a.S), it)
		case *types.Pointer:
			at := c.Args[0].Type().Underlying().(*types.Pointer).Elem().Underlying().(*types.Array)
			return scalar(IntLit(at.Len()), it)
		}
	case "cap":
		return scalar(args[0].F[3].S, it)
	case "append":
		return fr.builtinAppend(ins, c, args, st)
	case "copy":
		return fr.builtinCopy(ins, c, args, st)
	case "delete":
		mapDelete(st, mapInfoOf(c.Args[0].Type()), args[0].S, args[1].S)
		return Val{K: KUnit}
	case "ssa:wrapnilchk":
		return args[0]
	case "ssa:deferstack":
		return Val{K: KUnit}
	case "print", "println":
		return Val{K: KUnit}
	}
	panic(outsideSubset{"builtin " + b.Name()})
}

// copyRange returns a fresh row equal to dst except [dOff, dOff+n) := src[sOff, sOff+n).
func copyRange(st *State, dstRow, srcRow, dOff, sOff, n *Term, hint string) *Term {
	if lit, ok := litVal(n); ok && lit.IsInt64() && lit.Int64() <= 4 {
		r := dstRow
		for i := int64(0); i < lit.Int64(); i++ {
			r = Store(r, Add(dOff, IntLit(i)), Select(srcRow, Add(sOff, IntLit(i))))
		}
		return r
	}
	row := Fresh(hint, dstRow.sort)
	j := Bound("j", SInt)
	inR := And(Le(dOff, j), Lt(j, Add(dOff, n)))
	st.assume(Forall([]*Term{j}, Ite(inR,
		Eq(Select(row, j), Select(srcRow, Add(Sub(j, dOff), sOff))),
		Eq(Select(row, j), Select(dstRow, j))), []*Term{Select(row, j)}))
	return row
}

func (fr *Frame) builtinAppend(ins ssa.Instruction, c *ssa.CallCommon, args []Val, st *State) Val {
	it := types.Typ[types.Int]
	s := args[0]
	sl := c.Args[0].Type().Underlying().(*types.Slice)
	et := sl.Elem()
	var tArr, tOff, tLen *Term
	strSrc := false
	var strTerm *Term
	if b, ok := c.Args[1].Type().Underlying().(*types.Basic); ok && b.Info()&types.IsString != 0 {
		strSrc = true
		strTerm = args[1].S
		tLen = Slen(strTerm)
	} else {
		t := coerce(args[1], c.Args[1].Type())
		tArr, tOff, tLen = t.F[0].S, t.F[1].S, t.F[2].S
	}
	sArr, sOff, sLen, sCap := s.F[0].S, s.F[1].S, s.F[2].S, s.F[3].S
	n := Add(sLen, tLen)
	st.assume(Lt(n, IntLit(maxLen)))
	fits := Le(n, sCap)
	newArr := st.freshArr("app")
	newCap := Fresh("appcap", SInt)
	st.assume(And(Ge(newCap, n), Lt(newCap, IntLit(maxLen))))
	// when nothing is appended to a nil slice the result stays nil
	for _, l := range shapeOf(et) {
		key := elemKey(et) + l.suffix
		h := st.H(key, ArrSort(SInt, ArrSort(SInt, l.sort)))
		sRow := Select(h, sArr)
		var inPlace, fresh *Term
		if strSrc {
			// append([]byte, string...)
			rowI := Fresh("approw", sRow.sort)
			rowF := Fresh("approw", sRow.sort)
			j := Bound("j", SInt)
			st.assume(Forall([]*Term{j}, Ite(And(Le(Add(sOff, sLen), j), Lt(j, Add(sOff, n))),
				Eq(Select(rowI, j), Sat(strTerm, Sub(j, Add(sOff, sLen)))), Eq(Select(rowI, j), Select(sRow, j))), []*Term{Select(rowI, j)}))
			st.assume(Forall([]*Term{j}, Implies(And(Le(IntLit(0), j), Lt(j, n)), Eq(Select(rowF, j),
				Ite(Lt(j, sLen), Select(sRow, Add(sOff, j)), Sat(strTerm, Sub(j, sLen))))), []*Term{Select(rowF, j)}))
			inPlace, fresh = rowI, rowF
		} else {
			tRow := Select(h, tArr)
			inPlace = copyRange(st, sRow, tRow, Add(sOff, sLen), tOff, tLen, "approw")
			zero := ConstArr(sRow.sort, zeroOfSort(l.sort))
			f1 := copyRange(st, zero, sRow, IntLit(0), sOff, sLen, "approw")
			fresh = copyRange(st, f1, tRow, sLen, tOff, tLen, "approw")
		}
		st.setH(key, Ite(fits, Store(h, sArr, inPlace), Store(h, newArr, fresh)))
	}
	res := Val{K: KSlice, T: c.Args[0].Type(), F: []Val{
		scalar(Ite(fits, sArr, newArr), it), scalar(Ite(fits, sOff, IntLit(0)), it), scalar(n, it), scalar(Ite(fits, sCap, newCap), it)}}
	return res
}

func (fr *Frame) builtinCopy(ins ssa.Instruction, c *ssa.CallCommon, args []Val, st *State) Val {
	it := types.Typ[types.Int]
	d := args[0]
	et := c.Args[0].Type().Underlying().(*types.Slice).Elem()
	dArr, dOff, dLen := d.F[0].S, d.F[1].S, d.F[2].S
	if b, ok := c.Args[1].Type().Underlying().(*types.Basic); ok && b.Info()&types.IsString != 0 {
		s := args[1].S
		n := Ite(Le(dLen, Slen(s)), dLen, Slen(s))
		key := elemKey(et)
		h := st.H(key, ArrSort(SInt, byteRow))
		dRow := Select(h, dArr)
		row := Fresh("cpyrow", byteRow)
		j := Bound("j", SInt)
		st.assume(Forall([]*Term{j}, Ite(And(Le(dOff, j), Lt(j, Add(dOff, n))),
			Eq(Select(row, j), Sat(s, Sub(j, dOff))), Eq(Select(row, j), Select(dRow, j))), []*Term{Select(row, j)}))
		st.setH(key, Ite(Eq(n, IntLit(0)), h, Store(h, dArr, row)))
		return scalar(n, it)
	}
	s := coerce(args[1], c.Args[1].Type())
	sArr, sOff, sLen := s.F[0].S, s.F[1].S, s.F[2].S
	n := Ite(Le(dLen, sLen), dLen, sLen)
	for _, l := range shapeOf(et) {
		key := elemKey(et) + l.suffix
		h := st.H(key, ArrSort(SInt, ArrSort(SInt, l.sort)))
		row := copyRange(st, Select(h, dArr), Select(h, sArr), dOff, sOff, n, "cpyrow")
		st.setH(key, Ite(Eq(n, IntLit(0)), h, Store(h, dArr, row)))
	}
	return scalar(n, it)
}
