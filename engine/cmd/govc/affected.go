package main

// Selection of the contracted functions whose verification conditions can be affected by an edit:
// verification is modular, so an edit inside function F changes only the obligations of F itself and
// of the contracted functions that inline F (callees without a contract are inlined).

import (
	"path/filepath"
	"strconv"
	"strings"

	"golang.org/x/tools/go/ssa"
)

type changedLine struct {
	file string // path relative to the repository root
	line int
}

func parseChanged(s string) []changedLine {
	var out []changedLine
	for _, f := range strings.Split(s, ",") {
		f = strings.TrimSpace(f)
		i := strings.LastIndex(f, ":")
		if i < 0 {
			continue
		}
		n, err := strconv.Atoi(f[i+1:])
		if err != nil {
			continue
		}
		out = append(out, changedLine{filepath.Clean(f[:i]), n})
	}
	return out
}

func (e *Engine) spans(fn *ssa.Function, ch []changedLine) bool {
	if fn == nil || fn.Syntax() == nil {
		return false
	}
	p0 := e.prog.Fset.Position(fn.Syntax().Pos())
	p1 := e.prog.Fset.Position(fn.Syntax().End())
	rel, err := filepath.Rel(e.repo, p0.Filename)
	if err != nil {
		rel = p0.Filename
	}
	for _, c := range ch {
		if c.file == rel && p0.Line <= c.line && c.line <= p1.Line {
			return true
		}
	}
	return false
}

// affectedFuncs returns the contracted functions (keys) whose body, or the body of a contract-less
// module function they reach through static calls, contains a changed line. unowned lists changed
// lines that fall in no function body at all (declarations, constants): the caller should then
// fall back to verifying everything.
func affectedFuncs(e *Engine, ch []changedLine) (keys []string, unowned int) {
	owned := make([]bool, len(ch))
	for _, fn := range e.funcs {
		for i, c := range ch {
			if e.spans(fn, []changedLine{c}) {
				owned[i] = true
			}
		}
	}
	for _, o := range owned {
		if !o {
			unowned++
		}
	}
	for _, k := range matchFuncs(e, ".") {
		fn := e.funcs[k]
		if fn == nil {
			continue
		}
		seen := map[*ssa.Function]bool{}
		var reach func(f *ssa.Function, depth int) bool
		reach = func(f *ssa.Function, depth int) bool {
			if f == nil || seen[f] || depth > 5 {
				return false
			}
			seen[f] = true
			if e.spans(f, ch) {
				return true
			}
			for _, b := range f.Blocks {
				for _, ins := range b.Instrs {
					var callee *ssa.Function
					switch x := ins.(type) {
					case *ssa.Call:
						callee = x.Call.StaticCallee()
					case *ssa.Defer:
						callee = x.Call.StaticCallee()
					case *ssa.MakeClosure:
						callee, _ = x.Fn.(*ssa.Function)
					}
					if callee == nil || !e.inModule(callee) {
						continue
					}
					if c := e.contractFor(funcKey(callee)); c != nil && f != callee {
						continue // checked against its contract, not its body
					}
					if reach(callee, depth+1) {
						return true
					}
				}
			}
			for _, an := range f.AnonFuncs {
				if reach(an, depth+1) {
					return true
				}
			}
			return false
		}
		if reach(fn, 0) {
			keys = append(keys, k)
		}
	}
	return keys, unowned
}

// contractedCallersOf returns the functions under contract whose bodies (with the uncontracted helpers they
// inline) contain a static call of the function with key target: the `call.<target>.requires` obligations
// of target's preconditions are generated there.
func contractedCallersOf(e *Engine, target string) []string {
	var keys []string
	for _, k := range matchFuncs(e, ".") {
		fn := e.funcs[k]
		if fn == nil || k == target {
			continue
		}
		if c := e.contracts.Funcs[k]; c == nil || c.Extern || c.Assumed {
			continue
		}
		seen := map[*ssa.Function]bool{}
		var reach func(f *ssa.Function, depth int) bool
		reach = func(f *ssa.Function, depth int) bool {
			if f == nil || seen[f] || depth > 5 {
				return false
			}
			seen[f] = true
			for _, b := range f.Blocks {
				for _, ins := range b.Instrs {
					var callee *ssa.Function
					switch x := ins.(type) {
					case *ssa.Call:
						callee = x.Call.StaticCallee()
					case *ssa.Defer:
						callee = x.Call.StaticCallee()
					case *ssa.MakeClosure:
						callee, _ = x.Fn.(*ssa.Function)
					}
					if callee == nil || !e.inModule(callee) {
						continue
					}
					if funcKey(callee) == target {
						return true
					}
					if c := e.contractFor(funcKey(callee)); c != nil && f != callee {
						continue
					}
					if reach(callee, depth+1) {
						return true
					}
				}
			}
			for _, an := range f.AnonFuncs {
				if reach(an, depth+1) {
					return true
				}
			}
			return false
		}
		if reach(fn, 0) {
			keys = append(keys, k)
		}
	}
	return keys
}

func funcKey(f *ssa.Function) string {
	if f == nil {
		return ""
	}
	return fullFuncName(f)
}
