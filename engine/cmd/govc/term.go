package main

// Hash-consed SMT terms with light simplification and DAG-aware SMT-LIB printing.

import (
	"fmt"
	"math/big"
	"strings"
)

type Sort string

const (
	SInt  Sort = "Int"
	SBool Sort = "Bool"
	SReal Sort = "Real"
	SStr  Sort = "Str"
)

func ArrSort(k, v Sort) Sort { return Sort("(Array " + string(k) + " " + string(v) + ")") }

// arrParts splits "(Array K V)" into K and V.
func arrParts(s Sort) (Sort, Sort) {
	str := string(s)
	if !strings.HasPrefix(str, "(Array ") {
		panic("not an array sort: " + str)
	}
	body := str[len("(Array ") : len(str)-1]
	depth := 0
	for i, c := range body {
		switch c {
		case '(':
			depth++
		case ')':
			depth--
		case ' ':
			if depth == 0 {
				return Sort(body[:i]), Sort(body[i+1:])
			}
		}
	}
	panic("bad array sort " + str)
}

type Term struct {
	id    int
	op    string // operator, or symbol name for leaves
	args  []*Term
	sort  Sort
	kind  byte   // 'c' const literal, 'v' free symbol, 'b' bound var, 'a' application, 'q' quantifier
	bvars []*Term // for quantifiers
	pats  [][]*Term
	open  bool // contains bound variables
	n     int  // dag size estimate (capped)
	qd    int  // quantifier nesting depth
}

type TermStore struct {
	tab   map[string]*Term
	next  int
	decls map[string]string // symbol -> declaration line
	dord  []string
	fresh map[string]int
}

var TS = &TermStore{tab: map[string]*Term{}, decls: map[string]string{}, fresh: map[string]int{}}

func (ts *TermStore) mk(kind byte, op string, sort Sort, args []*Term, bvars []*Term, pats [][]*Term) *Term {
	var sb strings.Builder
	sb.WriteByte(kind)
	sb.WriteString(op)
	sb.WriteByte('|')
	sb.WriteString(string(sort))
	for _, a := range args {
		fmt.Fprintf(&sb, ",%d", a.id)
	}
	if kind == 'q' {
		sb.WriteByte(';')
		for _, b := range bvars {
			fmt.Fprintf(&sb, ",%d", b.id)
		}
		for _, p := range pats {
			sb.WriteByte('/')
			for _, t := range p {
				fmt.Fprintf(&sb, ",%d", t.id)
			}
		}
	}
	key := sb.String()
	if t, ok := ts.tab[key]; ok {
		return t
	}
	ts.next++
	t := &Term{id: ts.next, op: op, args: args, sort: sort, kind: kind, bvars: bvars, pats: pats, n: 1}
	if kind == 'b' {
		t.open = true
	}
	for _, a := range args {
		if a.open {
			t.open = true
		}
		t.n += a.n
		if t.n > 1<<30 {
			t.n = 1 << 30
		}
		if a.qd > t.qd {
			t.qd = a.qd
		}
	}
	if kind == 'q' {
		t.qd++
	}
	if kind == 'q' {
		// closed if every bound var occurring is bound here or the body is otherwise closed
		t.open = hasFreeBound(args[0], bvars)
		for _, p := range pats {
			for _, x := range p {
				if hasFreeBound(x, bvars) {
					t.open = true
				}
			}
		}
	}
	ts.tab[key] = t
	return t
}

func hasFreeBound(t *Term, bound []*Term) bool {
	if !t.open {
		return false
	}
	seen := map[int]bool{}
	var rec func(t *Term, b map[int]bool) bool
	rec = func(t *Term, b map[int]bool) bool {
		if !t.open {
			return false
		}
		if t.kind == 'b' {
			return !b[t.id]
		}
		if t.kind == 'q' {
			nb := map[int]bool{}
			for k := range b {
				nb[k] = true
			}
			for _, v := range t.bvars {
				nb[v.id] = true
			}
			return rec(t.args[0], nb)
		}
		if len(b) == len(bound) { // memo only at the outer binding level
			if seen[t.id] {
				return false
			}
			seen[t.id] = true
		}
		for _, a := range t.args {
			if rec(a, b) {
				return true
			}
		}
		return false
	}
	b := map[int]bool{}
	for _, v := range bound {
		b[v.id] = true
	}
	return rec(t, b)
}

// ---- leaves

func IntLit(n int64) *Term { return BigLit(big.NewInt(n)) }

func BigLit(n *big.Int) *Term {
	return TS.mk('c', n.String(), SInt, nil, nil, nil)
}

func RealLit(s string) *Term { return TS.mk('c', s, SReal, nil, nil, nil) }

var (
	True  = TS.mk('c', "true", SBool, nil, nil, nil)
	False = TS.mk('c', "false", SBool, nil, nil, nil)
)

func BoolLit(b bool) *Term {
	if b {
		return True
	}
	return False
}

func sanitize(name string) string {
	var sb strings.Builder
	for _, c := range name {
		if c >= 'a' && c <= 'z' || c >= 'A' && c <= 'Z' || c >= '0' && c <= '9' || c == '_' || c == '.' || c == '$' || c == '!' {
			sb.WriteRune(c)
		} else {
			sb.WriteByte('_')
		}
	}
	return sb.String()
}

// Sym returns the (unique) free symbol with this name and sort.
func Sym(name string, sort Sort) *Term {
	name = sanitize(name)
	if d, ok := TS.decls[name]; ok {
		want := fmt.Sprintf("(declare-fun %s () %s)", name, sort)
		if d != want {
			panic("symbol redeclared with different sort: " + name + " " + d + " vs " + want)
		}
	} else {
		TS.decls[name] = fmt.Sprintf("(declare-fun %s () %s)", name, sort)
		TS.dord = append(TS.dord, name)
	}
	return TS.mk('v', name, sort, nil, nil, nil)
}

// Fresh returns a new free symbol whose name starts with hint.
func Fresh(hint string, sort Sort) *Term {
	hint = sanitize(hint)
	TS.fresh[hint]++
	return Sym(fmt.Sprintf("%s!%d", hint, TS.fresh[hint]), sort)
}

func Bound(name string, sort Sort) *Term {
	TS.fresh["$b"]++
	return TS.mk('b', fmt.Sprintf("%s$%d", sanitize(name), TS.fresh["$b"]), sort, nil, nil, nil)
}

// DeclareFun registers an uninterpreted function.
func DeclareFun(name string, args []Sort, res Sort) {
	name = sanitize(name)
	as := make([]string, len(args))
	for i, a := range args {
		as[i] = string(a)
	}
	d := fmt.Sprintf("(declare-fun %s (%s) %s)", name, strings.Join(as, " "), res)
	if old, ok := TS.decls[name]; ok {
		if old != d {
			panic("function redeclared: " + name)
		}
		return
	}
	TS.decls[name] = d
	TS.dord = append(TS.dord, name)
}

func App(fn string, sort Sort, args ...*Term) *Term {
	return TS.mk('a', sanitize(fn), sort, args, nil, nil)
}

// ---- boolean

func Not(a *Term) *Term {
	if a == True {
		return False
	}
	if a == False {
		return True
	}
	if a.kind == 'a' && a.op == "not" {
		return a.args[0]
	}
	return TS.mk('a', "not", SBool, []*Term{a}, nil, nil)
}

func And(as ...*Term) *Term {
	var out []*Term
	seen := map[int]bool{}
	for _, a := range as {
		if a == nil || a == True {
			continue
		}
		if a == False {
			return False
		}
		if a.kind == 'a' && a.op == "and" {
			for _, x := range a.args {
				if !seen[x.id] {
					seen[x.id] = true
					out = append(out, x)
				}
			}
			continue
		}
		if !seen[a.id] {
			seen[a.id] = true
			out = append(out, a)
		}
	}
	if len(out) == 0 {
		return True
	}
	if len(out) == 1 {
		return out[0]
	}
	for _, x := range out {
		if x.kind == 'a' && x.op == "not" && seen[x.args[0].id] {
			return False
		}
	}
	return TS.mk('a', "and", SBool, out, nil, nil)
}

func Or(as ...*Term) *Term {
	var out []*Term
	seen := map[int]bool{}
	for _, a := range as {
		if a == nil || a == False {
			continue
		}
		if a == True {
			return True
		}
		if a.kind == 'a' && a.op == "or" {
			for _, x := range a.args {
				if !seen[x.id] {
					seen[x.id] = true
					out = append(out, x)
				}
			}
			continue
		}
		if !seen[a.id] {
			seen[a.id] = true
			out = append(out, a)
		}
	}
	if len(out) == 0 {
		return False
	}
	if len(out) == 1 {
		return out[0]
	}
	for _, x := range out {
		if x.kind == 'a' && x.op == "not" && seen[x.args[0].id] {
			return True
		}
	}
	return TS.mk('a', "or", SBool, out, nil, nil)
}

func Implies(a, b *Term) *Term {
	if a == True {
		return b
	}
	if a == False || b == True {
		return True
	}
	if b == False {
		return Not(a)
	}
	return TS.mk('a', "=>", SBool, []*Term{a, b}, nil, nil)
}

func Iff(a, b *Term) *Term { return Eq(a, b) }

func Ite(c, a, b *Term) *Term {
	if c == True {
		return a
	}
	if c == False {
		return b
	}
	if a == b {
		return a
	}
	if a.sort != b.sort {
		panic(fmt.Sprintf("ite sort mismatch %s vs %s", a.sort, b.sort))
	}
	// the same condition nested directly below is decided by the outer one
	if a.kind == 'a' && a.op == "ite" && a.args[0] == c {
		return Ite(c, a.args[1], b)
	}
	if b.kind == 'a' && b.op == "ite" && b.args[0] == c {
		return Ite(c, a, b.args[2])
	}
	if a.sort == SBool {
		if a == True && b == False {
			return c
		}
		if a == False && b == True {
			return Not(c)
		}
	}
	return TS.mk('a', "ite", a.sort, []*Term{c, a, b}, nil, nil)
}

func Eq(a, b *Term) *Term {
	if a == b {
		return True
	}
	if a.sort != b.sort {
		// Int/Real mixing: coerce
		if a.sort == SInt && b.sort == SReal {
			a = ToReal(a)
		} else if a.sort == SReal && b.sort == SInt {
			b = ToReal(b)
		} else {
			panic(fmt.Sprintf("eq sort mismatch %s vs %s (%s ; %s)", a.sort, b.sort, a.op, b.op))
		}
	}
	if a.kind == 'c' && b.kind == 'c' {
		return BoolLit(a.op == b.op)
	}
	if a.sort == SBool {
		if a == True {
			return b
		}
		if b == True {
			return a
		}
		if a == False {
			return Not(b)
		}
		if b == False {
			return Not(a)
		}
	}
	if a.id > b.id {
		a, b = b, a
	}
	return TS.mk('a', "=", SBool, []*Term{a, b}, nil, nil)
}

func Neq(a, b *Term) *Term { return Not(Eq(a, b)) }

func ToReal(a *Term) *Term {
	if a.sort == SReal {
		return a
	}
	if a.kind == 'c' {
		if strings.HasPrefix(a.op, "-") {
			return TS.mk('a', "-", SReal, []*Term{RealLit(a.op[1:] + ".0")}, nil, nil)
		}
		return RealLit(a.op + ".0")
	}
	return TS.mk('a', "to_real", SReal, []*Term{a}, nil, nil)
}

// ---- arithmetic

func litVal(t *Term) (*big.Int, bool) {
	if t.kind == 'c' && t.sort == SInt {
		n, ok := new(big.Int).SetString(t.op, 10)
		return n, ok
	}
	return nil, false
}

func arith(op string, a, b *Term) *Term {
	if a.sort != b.sort {
		a, b = ToReal(a), ToReal(b)
	}
	x, okx := litVal(a)
	y, oky := litVal(b)
	if okx && oky {
		switch op {
		case "+":
			return BigLit(new(big.Int).Add(x, y))
		case "-":
			return BigLit(new(big.Int).Sub(x, y))
		case "*":
			return BigLit(new(big.Int).Mul(x, y))
		}
	}
	if oky && y.Sign() == 0 && (op == "+" || op == "-") {
		return a
	}
	if okx && x.Sign() == 0 && op == "+" {
		return b
	}
	if op == "*" {
		if oky && y.Cmp(big.NewInt(1)) == 0 {
			return a
		}
		if okx && x.Cmp(big.NewInt(1)) == 0 {
			return b
		}
	}
	if (op == "+" || op == "*") && a.id > b.id {
		a, b = b, a
	}
	return TS.mk('a', op, a.sort, []*Term{a, b}, nil, nil)
}

func Add(a, b *Term) *Term { return arith("+", a, b) }
func Sub(a, b *Term) *Term { return arith("-", a, b) }
func Mul(a, b *Term) *Term { return arith("*", a, b) }
func Neg(a *Term) *Term {
	if a.sort == SReal {
		return TS.mk('a', "-", SReal, []*Term{a}, nil, nil)
	}
	return Sub(IntLit(0), a)
}

// Go-style truncated division and remainder (on Int), via SMT floor div/mod.
func DivT(a, b *Term) *Term {
	if a.sort == SReal || b.sort == SReal {
		return TS.mk('a', "/", SReal, []*Term{ToReal(a), ToReal(b)}, nil, nil)
	}
	x, okx := litVal(a)
	y, oky := litVal(b)
	if okx && oky && y.Sign() != 0 {
		return BigLit(new(big.Int).Quo(x, y))
	}
	d := TS.mk('a', "div", SInt, []*Term{a, b}, nil, nil)
	// SMT div is floor for positive divisor, ceil for negative divisor (Euclidean). Truncation:
	// if a >= 0: euclid div == trunc. if a < 0: trunc = -( (-a) div b ) when...
	negA := Neg(a)
	d2 := Neg(TS.mk('a', "div", SInt, []*Term{negA, b}, nil, nil))
	return Ite(Ge(a, IntLit(0)), d, d2)
}

func RemT(a, b *Term) *Term {
	x, okx := litVal(a)
	y, oky := litVal(b)
	if okx && oky && y.Sign() != 0 {
		return BigLit(new(big.Int).Rem(x, y))
	}
	return Sub(a, Mul(b, DivT(a, b)))
}

func ModE(a, b *Term) *Term {
	x, okx := litVal(a)
	y, oky := litVal(b)
	if okx && oky && y.Sign() > 0 {
		return BigLit(new(big.Int).Mod(x, y))
	}
	return TS.mk('a', "mod", SInt, []*Term{a, b}, nil, nil)
}

func cmp(op string, a, b *Term) *Term {
	if a.sort != b.sort {
		a, b = ToReal(a), ToReal(b)
	}
	x, okx := litVal(a)
	y, oky := litVal(b)
	if okx && oky {
		c := x.Cmp(y)
		switch op {
		case "<":
			return BoolLit(c < 0)
		case "<=":
			return BoolLit(c <= 0)
		case ">":
			return BoolLit(c > 0)
		case ">=":
			return BoolLit(c >= 0)
		}
	}
	if a == b {
		return BoolLit(op == "<=" || op == ">=")
	}
	return TS.mk('a', op, SBool, []*Term{a, b}, nil, nil)
}

func Lt(a, b *Term) *Term { return cmp("<", a, b) }
func Le(a, b *Term) *Term { return cmp("<=", a, b) }
func Gt(a, b *Term) *Term { return cmp(">", a, b) }
func Ge(a, b *Term) *Term { return cmp(">=", a, b) }

// ---- arrays

func Select(a, i *Term) *Term {
	_, vs := arrParts(a.sort)
	// read-over-write with syntactically equal / distinct-literal index
	for a.kind == 'a' && a.op == "store" {
		if a.args[1] == i {
			return a.args[2]
		}
		if a.args[1].kind == 'c' && i.kind == 'c' && a.args[1].op != i.op {
			a = a.args[0]
			continue
		}
		break
	}
	if a.kind == 'a' && a.op == "constarr" {
		return a.args[0]
	}
	// lift ite out of selects so that read-over-write simplifies syntactically
	if a.kind == 'a' && a.op == "ite" {
		return Ite(a.args[0], Select(a.args[1], i), Select(a.args[2], i))
	}
	if i.kind == 'a' && i.op == "ite" && a.kind == 'a' && a.op == "store" {
		return Ite(i.args[0], Select(a, i.args[1]), Select(a, i.args[2]))
	}
	return TS.mk('a', "select", vs, []*Term{a, i}, nil, nil)
}

func Store(a, i, v *Term) *Term {
	ks, vs := arrParts(a.sort)
	if i.sort != ks || v.sort != vs {
		panic(fmt.Sprintf("store sort mismatch: arr %s idx %s val %s", a.sort, i.sort, v.sort))
	}
	if a.kind == 'a' && a.op == "store" && a.args[1] == i {
		a = a.args[0]
	}
	return TS.mk('a', "store", a.sort, []*Term{a, i, v}, nil, nil)
}

// ConstArr is ((as const sort) v).
func ConstArr(sort Sort, v *Term) *Term {
	return TS.mk('a', "constarr", sort, []*Term{v}, nil, nil)
}

// ---- quantifiers

func Forall(vars []*Term, body *Term, pats ...[]*Term) *Term {
	if body == True {
		return True
	}
	if len(vars) == 0 {
		return body
	}
	vars, body, pats = canonBound(vars, body, pats)
	// a pattern may not contain ite / boolean structure (the simplifier can introduce it): drop such patterns
	var okPats [][]*Term
	for _, p := range pats {
		good := true
		for _, x := range p {
			if containsOp(x, "ite") || x.sort == SBool && x.kind == 'a' && (x.op == "and" || x.op == "or" || x.op == "not" || x.op == "=") {
				good = false
			}
		}
		if good {
			okPats = append(okPats, p)
		}
	}
	return TS.mk('q', "forall", SBool, []*Term{body}, vars, okPats)
}

func containsOp(t *Term, op string) bool {
	if t.kind == 'a' && t.op == op {
		return true
	}
	for _, a := range t.args {
		if containsOp(a, op) {
			return true
		}
	}
	return false
}

// canonBound renames bound variables to names that depend only on nesting depth, position and
// sort, so that alpha-equivalent quantified formulas are the same term.
func canonBound(vars []*Term, body *Term, pats [][]*Term) ([]*Term, *Term, [][]*Term) {
	d := body.qd + 1
	m := map[int]*Term{}
	nv := make([]*Term, len(vars))
	for k, v := range vars {
		cn := fmt.Sprintf("q%d_%d", d, k)
		if strings.Contains(v.op, "ref$") {
			cn = fmt.Sprintf("qref$%d_%d", d, k) // reference-typed variable (see isRefVar)
		}
		nv[k] = TS.mk('b', cn, v.sort, nil, nil, nil)
		if nv[k] != v {
			m[v.id] = nv[k]
		}
	}
	if len(m) == 0 {
		return vars, body, pats
	}
	body = Subst(body, m)
	var np [][]*Term
	for _, p := range pats {
		var q []*Term
		for _, x := range p {
			q = append(q, Subst(x, m))
		}
		np = append(np, q)
	}
	return nv, body, np
}

func Exists(vars []*Term, body *Term) *Term {
	if body == False {
		return False
	}
	if len(vars) == 0 {
		return body
	}
	vars, body, _ = canonBound(vars, body, nil)
	return TS.mk('q', "exists", SBool, []*Term{body}, vars, nil)
}

// Subst replaces free symbols / bound vars by terms (keys are term ids).
func Subst(t *Term, m map[int]*Term) *Term {
	memo := map[int]*Term{}
	var rec func(t *Term) *Term
	rec = func(t *Term) *Term {
		if r, ok := m[t.id]; ok {
			return r
		}
		if len(t.args) == 0 {
			return t
		}
		if r, ok := memo[t.id]; ok {
			return r
		}
		nargs := make([]*Term, len(t.args))
		changed := false
		for i, a := range t.args {
			nargs[i] = rec(a)
			if nargs[i] != a {
				changed = true
			}
		}
		var r *Term
		if !changed && t.kind != 'q' {
			r = t
		} else if t.kind == 'q' {
			var npats [][]*Term
			for _, p := range t.pats {
				var np []*Term
				for _, x := range p {
					np = append(np, rec(x))
				}
				npats = append(npats, np)
			}
			r = TS.mk('q', t.op, t.sort, nargs, t.bvars, npats)
		} else {
			r = rebuild(t, nargs)
		}
		memo[t.id] = r
		return r
	}
	return rec(t)
}

func rebuild(t *Term, args []*Term) *Term {
	switch t.op {
	case "and":
		return And(args...)
	case "or":
		return Or(args...)
	case "not":
		return Not(args[0])
	case "=>":
		return Implies(args[0], args[1])
	case "ite":
		return Ite(args[0], args[1], args[2])
	case "=":
		return Eq(args[0], args[1])
	case "+":
		return Add(args[0], args[1])
	case "-":
		if len(args) == 2 {
			return Sub(args[0], args[1])
		}
	case "*":
		return Mul(args[0], args[1])
	case "<":
		return Lt(args[0], args[1])
	case "<=":
		return Le(args[0], args[1])
	case ">":
		return Gt(args[0], args[1])
	case ">=":
		return Ge(args[0], args[1])
	case "select":
		return Select(args[0], args[1])
	case "store":
		return Store(args[0], args[1], args[2])
	}
	return TS.mk(t.kind, t.op, t.sort, args, nil, nil)
}

// ---- printing

type Printer struct {
	sb      strings.Builder
	named   map[int]string
	symSeen map[string]bool
	syms    []string
	defs    []string
}

func NewPrinter() *Printer {
	return &Printer{named: map[int]string{}, symSeen: map[string]bool{}}
}

func (p *Printer) noteSym(name string) {
	if !p.symSeen[name] {
		p.symSeen[name] = true
		p.syms = append(p.syms, name)
	}
}

// refcounts over closed subterms
func (p *Printer) count(t *Term, rc map[int]int) {
	rc[t.id]++
	if rc[t.id] > 1 {
		return
	}
	for _, a := range t.args {
		p.count(a, rc)
	}
	for _, pt := range t.pats {
		for _, x := range pt {
			p.count(x, rc)
		}
	}
}

func (p *Printer) inline(t *Term, rc map[int]int) string {
	if n, ok := p.named[t.id]; ok {
		return n
	}
	switch t.kind {
	case 'c':
		if t.sort == SInt && strings.HasPrefix(t.op, "-") {
			return "(- " + t.op[1:] + ")"
		}
		return t.op
	case 'v':
		p.noteSym(t.op)
		return t.op
	case 'b':
		return t.op
	case 'q':
		var sb strings.Builder
		sb.WriteString("(" + t.op + " (")
		for _, v := range t.bvars {
			fmt.Fprintf(&sb, "(%s %s)", v.op, v.sort)
		}
		sb.WriteString(") ")
		body := p.expr(t.args[0], rc)
		if len(t.pats) > 0 {
			sb.WriteString("(! " + body)
			for _, pt := range t.pats {
				sb.WriteString(" :pattern (")
				for i, x := range pt {
					if i > 0 {
						sb.WriteByte(' ')
					}
					sb.WriteString(p.expr(x, rc))
				}
				sb.WriteString(")")
			}
			sb.WriteString(")")
		} else {
			sb.WriteString(body)
		}
		sb.WriteString(")")
		return sb.String()
	}
	if t.op == "constarr" {
		return fmt.Sprintf("((as const %s) %s)", t.sort, p.expr(t.args[0], rc))
	}
	if len(t.args) == 0 {
		p.noteSym(t.op)
		return t.op
	}
	p.noteSym(t.op)
	var sb strings.Builder
	sb.WriteString("(" + t.op)
	for _, a := range t.args {
		sb.WriteByte(' ')
		sb.WriteString(p.expr(a, rc))
	}
	sb.WriteByte(')')
	return sb.String()
}

func (p *Printer) expr(t *Term, rc map[int]int) string {
	if n, ok := p.named[t.id]; ok {
		return n
	}
	if t.open || len(t.args) == 0 || (rc[t.id] < 2 && t.n < 40) {
		return p.inline(t, rc)
	}
	s := p.inline(t, rc)
	name := fmt.Sprintf("t!%d", t.id)
	p.named[t.id] = name
	p.defs = append(p.defs, fmt.Sprintf("(define-fun %s () %s %s)", name, t.sort, s))
	return name
}

// Script renders a complete query: axioms, assumptions, and the negated goal.
// prelude receives the set of symbols used and returns the background theory text plus
// whether that text contains quantifiers.
func Script(logicOpts string, prelude func(seen map[string]bool) (string, bool), axioms []*Term, assumptions []*Term, negGoal *Term, getModel []*Term) (string, bool) {
	p := NewPrinter()
	rc := map[int]int{}
	all := append(append([]*Term{}, axioms...), assumptions...)
	all = append(all, negGoal)
	all = append(all, getModel...)
	for _, t := range all {
		p.count(t, rc)
	}
	var asserts []string
	for _, t := range axioms {
		asserts = append(asserts, "(assert "+p.expr(t, rc)+")")
	}
	for _, t := range assumptions {
		asserts = append(asserts, "(assert "+p.expr(t, rc)+")")
	}
	asserts = append(asserts, "(assert "+p.expr(negGoal, rc)+")")
	var gm []string
	for _, t := range getModel {
		gm = append(gm, p.expr(t, rc))
	}
	var sb strings.Builder
	sb.WriteString(logicOpts)
	sb.WriteString("(declare-sort Str 0)\n")
	sb.WriteString(dtPrelude)
	pre, quant := prelude(p.symSeen)
	sb.WriteString(pre)
	for _, s := range TS.dord {
		if d, ok := TS.decls[s]; ok && p.symSeen[s] {
			sb.WriteString(d + "\n")
		}
	}
	for _, d := range p.defs {
		sb.WriteString(d + "\n")
	}
	for _, a := range asserts {
		sb.WriteString(a + "\n")
	}
	sb.WriteString("(check-sat)\n")
	if len(gm) > 0 {
		sb.WriteString("(get-value (" + strings.Join(gm, " ") + "))\n")
	}
	if !quant {
		for _, t := range all {
			if termQuantified(t) {
				quant = true
				break
			}
		}
	}
	return sb.String(), quant
}

func termQuantified(t *Term) bool {
	seen := map[int]bool{}
	var rec func(t *Term) bool
	rec = func(t *Term) bool {
		if seen[t.id] {
			return false
		}
		seen[t.id] = true
		if t.kind == 'q' {
			return true
		}
		for _, a := range t.args {
			if rec(a) {
				return true
			}
		}
		return false
	}
	return rec(t)
}

// debugTerm prints a term up to a depth (development aid).
func debugTerm(t *Term, depth int) string {
	if len(t.args) == 0 || depth == 0 {
		if len(t.args) > 0 {
			return "(" + t.op + " …)"
		}
		return t.op
	}
	s := "(" + t.op
	for _, a := range t.args {
		s += " " + debugTerm(a, depth-1)
	}
	return s + ")"
}
