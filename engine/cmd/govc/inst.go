package main

// Goal skolemisation and hypothesis pre-instantiation.
//
// E-matching cannot see through the index arithmetic of slice accesses (row[off+i]) and MBQI gets
// lost among the background quantifiers, so the common "pointwise" proofs are helped along here:
// universally quantified goals are skolemised by the generator itself, and every positively
// occurring universal hypothesis is additionally instantiated at those skolem constants.
// Both steps are validity preserving: instances are consequences of the hypotheses.

func hasQuant(t *Term) bool { return t.qd > 0 }

// skolemize replaces positive foralls / negative exists of the goal by fresh constants.
func skolemize(t *Term, pos bool, sk *[]*Term) *Term {
	if !hasQuant(t) {
		return t
	}
	switch {
	case t.kind == 'q':
		if (t.op == "forall") == pos && !t.open {
			m := map[int]*Term{}
			for _, v := range t.bvars {
				c := Fresh("sk_"+v.op, v.sort)
				m[v.id] = c
				*sk = append(*sk, c)
			}
			return skolemize(Subst(t.args[0], m), pos, sk)
		}
		return t
	case t.kind == 'a' && (t.op == "and" || t.op == "or"):
		args := make([]*Term, len(t.args))
		for i, a := range t.args {
			args[i] = skolemize(a, pos, sk)
		}
		if t.op == "and" {
			return And(args...)
		}
		return Or(args...)
	case t.kind == 'a' && t.op == "not":
		return Not(skolemize(t.args[0], !pos, sk))
	case t.kind == 'a' && t.op == "=>":
		return Implies(skolemize(t.args[0], !pos, sk), skolemize(t.args[1], pos, sk))
	case t.kind == 'a' && t.op == "ite" && t.sort == SBool && !hasQuant(t.args[0]):
		return Ite(t.args[0], skolemize(t.args[1], pos, sk), skolemize(t.args[2], pos, sk))
	}
	return t
}

// instantiate returns t with every positive closed forall replaced by the conjunction of its
// instances at the given constants (nil when nothing was instantiated).
func instantiate(t *Term, pos bool, consts []*Term, budget *int) *Term {
	if !hasQuant(t) || *budget <= 0 {
		return t
	}
	switch {
	case t.kind == 'q':
		if t.op == "exists" && !pos && !t.open {
			// under a negation an existential is a universal fact: offer the disjunction of instances
			d := instantiate(TS.mk('q', "forall", SBool, []*Term{Not(t.args[0])}, t.bvars, nil), true, consts, budget)
			if d.kind == 'q' {
				return t
			}
			return Not(d)
		}
		if t.op == "forall" && pos && !t.open {
			// candidate assignments: each bound var ranges over the constants of its sort
			var cands [][]*Term
			for _, v := range t.bvars {
				var c []*Term
				for _, k := range consts {
					if k.sort == v.sort {
						c = append(c, k)
					}
				}
				if len(c) == 0 {
					return t
				}
				cands = append(cands, c)
			}
			total := 1
			for _, c := range cands {
				total *= len(c)
				if total > 100 {
					return t
				}
			}
			var insts []*Term
			idx := make([]int, len(cands))
			for {
				m := map[int]*Term{}
				for i, v := range t.bvars {
					m[v.id] = cands[i][idx[i]]
				}
				insts = append(insts, instantiate(Subst(t.args[0], m), pos, consts, budget))
				*budget--
				k := 0
				for k < len(idx) {
					idx[k]++
					if idx[k] < len(cands[k]) {
						break
					}
					idx[k] = 0
					k++
				}
				if k == len(idx) {
					break
				}
			}
			return And(insts...)
		}
		return t
	case t.kind == 'a' && (t.op == "and" || t.op == "or"):
		args := make([]*Term, len(t.args))
		for i, a := range t.args {
			args[i] = instantiate(a, pos, consts, budget)
		}
		if t.op == "and" {
			return And(args...)
		}
		return Or(args...)
	case t.kind == 'a' && t.op == "not":
		return Not(instantiate(t.args[0], !pos, consts, budget))
	case t.kind == 'a' && t.op == "=>":
		return Implies(instantiate(t.args[0], !pos, consts, budget), instantiate(t.args[1], pos, consts, budget))
	case t.kind == 'a' && t.op == "ite" && t.sort == SBool && !hasQuant(t.args[0]):
		return Ite(t.args[0], instantiate(t.args[1], pos, consts, budget), instantiate(t.args[2], pos, consts, budget))
	}
	return t
}

// prepareQuery skolemises the goal and returns extra hypothesis instances.
func prepareQuery(pc, goal *Term, hints []*Term) (newGoal *Term, newPC *Term, extra *Term) {
	var sk []*Term
	// antecedents of the goal are hypotheses (so that they get instantiated as well)
	for goal.kind == 'a' && goal.op == "=>" {
		pc = And(pc, goal.args[0])
		goal = goal.args[1]
	}
	g := skolemize(goal, true, &sk)
	for g.kind == 'a' && g.op == "=>" {
		pc = And(pc, g.args[0])
		g = g.args[1]
	}
	// existential content of the hypotheses (exists, or forall in an antecedent) gets constants too
	var hsk []*Term
	var hyps []*Term
	for _, c := range conjuncts(pc) {
		if hasQuant(c) {
			c = skolemize(c, false, &hsk)
		}
		hyps = append(hyps, c)
	}
	pc = And(hyps...)
	if len(hsk) <= 4 {
		sk = append(sk, hsk...)
	}
	if len(sk) == 0 && len(hints) == 0 {
		return g, pc, True
	}
	// also offer neighbours of integer skolems (shifted accesses such as old[i+1])
	consts := append([]*Term{}, sk...)
	for _, c := range sk {
		if c.sort == SInt && len(sk) <= 2 {
			consts = append(consts, Add(c, IntLit(1)), Sub(c, IntLit(1)))
		}
	}
	seen := map[int]bool{}
	for _, c := range consts {
		seen[c.id] = true
	}
	for _, h := range hints {
		if !seen[h.id] && len(consts) < 9 {
			seen[h.id] = true
			consts = append(consts, h)
		}
	}
	budget := 600
	var parts []*Term
	ng := Not(g)
	for round := 0; round < 2 && len(consts) > 0; round++ {
		var insts []*Term
		for _, c := range conjuncts(pc) {
			if hasQuant(c) {
				i := instantiate(c, true, consts, &budget)
				if i != c {
					insts = append(insts, i)
				}
			}
		}
		// the negated goal is a hypothesis of the refutation as well: an existential goal becomes
		// a universal fact there, and needs the same instances (witness candidates)
		if hasQuant(ng) {
			i := instantiate(ng, true, consts, &budget)
			if i != ng {
				insts = append(insts, i)
			}
		}
		// existentials exposed by the instances get constants of their own, which feed a second round
		var nsk []*Term
		for k, i := range insts {
			if hasQuant(i) {
				insts[k] = skolemize(i, false, &nsk)
			}
		}
		parts = append(parts, insts...)
		if len(nsk) == 0 || len(nsk) > 6 {
			break
		}
		consts = nsk
	}
	return g, pc, And(parts...)
}
