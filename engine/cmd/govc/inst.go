package main

// Goal skolemisation and hypothesis pre-instantiation.
//
// E-matching cannot see through the index arithmetic of slice accesses (row[off+i]) and MBQI gets
// lost among the background quantifiers, so the common "pointwise" proofs are helped along here:
// universally quantified goals are skolemised by the generator itself, and every positively
// occurring universal hypothesis is additionally instantiated at those skolem constants.
// Both steps are validity preserving: instances are consequences of the hypotheses.

import (
	"fmt"
	"os"
	"sort"
	"strings"
)

var debugInst bool

func hasQuant(t *Term) bool { return t.qd > 0 }

// skolemize replaces positive foralls / negative exists of the goal by fresh constants.
func skolemize(t *Term, pos bool, sk *[]*Term) *Term {
	if !hasQuant(t) {
		return t
	}
	switch {
	case t.kind == 'q':
		if (t.op == "forall") == pos && !t.open {
			m := map[int]*Term{}
			for _, v := range t.bvars {
				c := Fresh("sk_"+v.op, v.sort)
				m[v.id] = c
				*sk = append(*sk, c)
			}
			return skolemize(Subst(t.args[0], m), pos, sk)
		}
		return t
	case t.kind == 'a' && (t.op == "and" || t.op == "or"):
		args := make([]*Term, len(t.args))
		for i, a := range t.args {
			args[i] = skolemize(a, pos, sk)
		}
		if t.op == "and" {
			return And(args...)
		}
		return Or(args...)
	case t.kind == 'a' && t.op == "not":
		return Not(skolemize(t.args[0], !pos, sk))
	case t.kind == 'a' && t.op == "=" && t.args[0].sort == SBool:
		a, b := t.args[0], t.args[1]
		return skolemize(And(Implies(a, b), Implies(b, a)), pos, sk)
	case t.kind == 'a' && t.op == "=>":
		return Implies(skolemize(t.args[0], !pos, sk), skolemize(t.args[1], pos, sk))
	case t.kind == 'a' && t.op == "ite" && t.sort == SBool && !hasQuant(t.args[0]):
		return Ite(t.args[0], skolemize(t.args[1], pos, sk), skolemize(t.args[2], pos, sk))
	}
	return t
}

// instantiate returns t with every positive closed forall replaced by the conjunction of its
// instances at the given constants (nil when nothing was instantiated).
func instantiate(t *Term, pos bool, consts []*Term, budget *int, refs map[int]bool) *Term {
	if !hasQuant(t) || *budget <= 0 {
		return t
	}
	switch {
	case t.kind == 'q':
		if t.op == "exists" && !pos && !t.open {
			// under a negation an existential is a universal fact: offer the disjunction of instances
			d := instantiate(TS.mk('q', "forall", SBool, []*Term{Not(t.args[0])}, t.bvars, nil), true, consts, budget, refs)
			if d.kind == 'q' {
				return t
			}
			return Not(d)
		}
		if t.op == "forall" && pos && !t.open {
			// candidate assignments: each bound var ranges over the constants of its sort
			var cands [][]*Term
			for _, v := range t.bvars {
				var c []*Term
				for _, k := range consts {
					if k.sort == v.sort && (v.sort != SInt || isRefVar(v) == (refs[k.id] || isRefVar(k))) {
						c = append(c, k)
					}
				}
				if len(c) == 0 {
					return t
				}
				cands = append(cands, c)
			}
			// keep the product bounded: constants come in priority order (goal skolems first), so
			// for several bound variables only the leading ones are used
			limit := 100
			if len(cands) == 2 {
				limit = 10
			} else if len(cands) >= 3 {
				limit = 4
			}
			for i := range cands {
				if len(cands[i]) > limit {
					cands[i] = cands[i][:limit]
				}
			}
			var insts []*Term
			idx := make([]int, len(cands))
			for {
				m := map[int]*Term{}
				for i, v := range t.bvars {
					m[v.id] = cands[i][idx[i]]
				}
				insts = append(insts, instantiate(Subst(t.args[0], m), pos, consts, budget, refs))
				*budget--
				k := 0
				for k < len(idx) {
					idx[k]++
					if idx[k] < len(cands[k]) {
						break
					}
					idx[k] = 0
					k++
				}
				if k == len(idx) {
					break
				}
			}
			return And(insts...)
		}
		return t
	case t.kind == 'a' && (t.op == "and" || t.op == "or"):
		args := make([]*Term, len(t.args))
		for i, a := range t.args {
			args[i] = instantiate(a, pos, consts, budget, refs)
		}
		if t.op == "and" {
			return And(args...)
		}
		return Or(args...)
	case t.kind == 'a' && t.op == "not":
		return Not(instantiate(t.args[0], !pos, consts, budget, refs))
	case t.kind == 'a' && t.op == "=" && t.args[0].sort == SBool:
		// a <=> b: both directions, each with its own polarity
		a, b := t.args[0], t.args[1]
		return instantiate(And(Implies(a, b), Implies(b, a)), pos, consts, budget, refs)
	case t.kind == 'a' && t.op == "=>":
		return Implies(instantiate(t.args[0], !pos, consts, budget, refs), instantiate(t.args[1], pos, consts, budget, refs))
	case t.kind == 'a' && t.op == "ite" && t.sort == SBool && !hasQuant(t.args[0]):
		return Ite(t.args[0], instantiate(t.args[1], pos, consts, budget, refs), instantiate(t.args[2], pos, consts, budget, refs))
	}
	return t
}

// skolemSums returns the integer sums / differences occurring in t that mention a skolem
// constant and no array read (smallest first).
func skolemSums(t *Term, sk []*Term) []*Term {
	isSk := map[int]bool{}
	for _, c := range sk {
		if c.sort == SInt {
			isSk[c.id] = true
		}
	}
	if len(isSk) == 0 {
		return nil
	}
	var out []*Term
	visited := map[int]bool{}
	var hasSk func(t *Term) (bool, bool)
	hasSk = func(t *Term) (bool, bool) { // (mentions a skolem, is select-free)
		if isSk[t.id] {
			return true, true
		}
		if t.kind == 'a' && t.op == "ite" && t.n > 40 {
			return false, false // a large conditional: not an index expression worth instantiating at
		}
		any, pure := false, true
		for _, a := range t.args {
			m, p := hasSk(a)
			any = any || m
			pure = pure && p
		}
		return any, pure
	}
	var walk func(t *Term)
	walk = func(t *Term) {
		if visited[t.id] {
			return
		}
		visited[t.id] = true
		if t.kind == 'a' && t.sort == SInt && (t.op == "+" || t.op == "-") && t.n <= 60 {
			if m, p := hasSk(t); m && p {
				out = append(out, t)
			}
		}
		for _, a := range t.args {
			walk(a)
		}
	}
	walk(t)
	for i := 0; i < len(out); i++ {
		for j := i + 1; j < len(out); j++ {
			if out[j].n < out[i].n {
				out[i], out[j] = out[j], out[i]
			}
		}
	}
	if len(out) > 10 {
		out = out[:10]
	}
	return out
}

// skolemIndexes returns the index arguments of array reads in t that mention a skolem constant
// (whatever their shape: the length of a merged slice is a conditional term), smallest first.
func skolemIndexes(t *Term, sk []*Term) []*Term {
	isSk := map[int]bool{}
	for _, c := range sk {
		if c.sort == SInt {
			isSk[c.id] = true
		}
	}
	if len(isSk) == 0 {
		return nil
	}
	memo := map[int]bool{}
	var mentions func(t *Term) bool
	mentions = func(t *Term) bool {
		if isSk[t.id] {
			return true
		}
		if v, ok := memo[t.id]; ok {
			return v
		}
		r := false
		for _, a := range t.args {
			if mentions(a) {
				r = true
				break
			}
		}
		memo[t.id] = r
		return r
	}
	var out []*Term
	visited := map[int]bool{}
	var walk func(t *Term)
	walk = func(t *Term) {
		if visited[t.id] {
			return
		}
		visited[t.id] = true
		if t.kind == 'a' && t.op == "select" && len(t.args) == 2 && t.args[1].sort == SInt && !isSk[t.args[1].id] &&
			t.args[1].n <= 400 && !containsOp(t.args[1], "select") && mentions(t.args[1]) {
			out = append(out, t.args[1])
			// absolute index = relative index + offset: the relative part is what a fact about the
			// source slice (forall j :: ... s[j] ...) has to be instantiated at
			if ix := t.args[1]; ix.kind == 'a' && (ix.op == "+" || ix.op == "-") {
				for _, a := range ix.args {
					if !isSk[a.id] && a.sort == SInt && mentions(a) {
						out = append(out, a)
					}
				}
			}
		}
		for _, a := range t.args {
			walk(a)
		}
	}
	walk(t)
	for i := 0; i < len(out); i++ {
		for j := i + 1; j < len(out); j++ {
			if out[j].n < out[i].n {
				out[i], out[j] = out[j], out[i]
			}
		}
	}
	if len(out) > 8 {
		out = out[:8]
	}
	return out
}

func frameConsts(t *Term) []*Term {
	var out []*Term
	seen := map[int]bool{}
	var walk func(t *Term)
	walk = func(t *Term) {
		if seen[t.id] {
			return
		}
		seen[t.id] = true
		if t.kind == 'v' && len(t.op) > 8 && t.op[:8] == "frame_r!" {
			out = append(out, t)
		}
		for _, a := range t.args {
			walk(a)
		}
	}
	walk(t)
	return out
}

// prepareQuery skolemises the goal and returns extra hypothesis instances.
func prepareQuery(pc, goal *Term, hints []*Term, refHints []*Term) (newGoal *Term, newPC *Term, extra *Term) {
	var sk []*Term
	// antecedents of the goal are hypotheses (so that they get instantiated as well)
	for goal.kind == 'a' && goal.op == "=>" {
		pc = And(pc, goal.args[0])
		goal = goal.args[1]
	}
	g := skolemize(goal, true, &sk)
	// the arbitrary object of a frame obligation is a skolem constant too
	sk = append(sk, frameConsts(goal)...)
	for g.kind == 'a' && g.op == "=>" {
		pc = And(pc, g.args[0])
		g = g.args[1]
	}
	// existential content of the hypotheses (exists, or forall in an antecedent) gets constants too
	var hsk []*Term
	var hyps []*Term
	for _, c := range conjuncts(pc) {
		if hasQuant(c) {
			c = skolemize(c, false, &hsk)
		}
		hyps = append(hyps, c)
	}
	pc = And(hyps...)
	if len(hsk) <= 8 {
		sk = append(sk, hsk...)
	}
	if len(sk) == 0 && len(hints) == 0 && len(refHints) == 0 {
		return g, pc, True
	}
	// candidate constants in priority order: skolems of the goal and the hypotheses, index sums
	// of the goal (oldLen + j), the integer locals, and neighbours of the goal's skolems
	consts := append([]*Term{}, sk...)
	seen := map[int]bool{}
	for _, c := range consts {
		seen[c.id] = true
	}
	for _, x := range skolemSums(g, sk) {
		if !seen[x.id] && len(consts) < 14 {
			seen[x.id] = true
			consts = append(consts, x)
		}
	}
	for _, h := range hints {
		if !seen[h.id] && len(consts) < 16 {
			seen[h.id] = true
			consts = append(consts, h)
		}
	}
	// a counter that was just stepped (i+1, j-1): the value it had during the iteration is needed as well
	for _, h := range hints {
		if h.kind == 'a' && (h.op == "+" || h.op == "-") && len(h.args) == 2 {
			for _, a := range h.args {
				if a.kind == 'v' && a.sort == SInt && !seen[a.id] && len(consts) < 20 {
					seen[a.id] = true
					consts = append(consts, a)
				}
			}
		}
	}
	refs := map[int]bool{}
	if len(refHints) > 0 {
		// walks over linked nodes index their level / pointer arrays at constant positions
		if z := IntLit(0); !seen[z.id] {
			seen[z.id] = true
			consts = append(consts, z)
		}
	}
	for _, h := range refHints {
		refs[h.id] = true
		if !seen[h.id] {
			seen[h.id] = true
			consts = append(consts, h)
		}
	}
	for _, c := range sk {
		if len(c.op) > 8 && c.op[:8] == "frame_r!" {
			refs[c.id] = true
		}
	}
	// the arbitrary element of a slice of pointers the goal talks about (ptrs[k] for the goal's own k) is an
	// object the callees' `forall x *T` postconditions have to be applied to
	for _, x := range goalPointerElems(g, sk) {
		if !seen[x.id] && os.Getenv("GOVC_PTRELEM") != "off" {
			seen[x.id] = true
			refs[x.id] = true
			consts = append(consts, x)
		}
	}
	if debugInst {
		for _, c := range consts {
			fmt.Fprintf(os.Stderr, "  inst const ref=%v %s\n", refs[c.id] || isRefVar(c), debugTerm(c, 4))
		}
	}
	ngoal := len(sk) - len(hsk)
	if len(hsk) > 8 {
		ngoal = len(sk)
	}
	for k, c := range sk {
		if k < ngoal && c.sort == SInt && ngoal <= 2 {
			for _, x := range []*Term{Add(c, IntLit(1)), Sub(c, IntLit(1))} {
				if !seen[x.id] {
					seen[x.id] = true
					consts = append(consts, x)
				}
			}
		}
	}
	// instance budget: bounded in total, and per hypothesis so that a few large nested quantifiers
	// (index invariants over maps of maps) cannot starve the hypotheses that come after them
	budget := 1500
	const perHyp = 200
	var parts []*Term
	ng := Not(g)
	// relevance order: hypotheses that mention a heap field the goal mentions are instantiated first (the
	// budget is finite, and structure invariants repeated for several states used to exhaust it before the
	// facts about the goal's own fields were reached); the order is otherwise unchanged
	hyps = append([]*Term{}, conjuncts(pc)...)
	{
		gf := map[string]bool{}
		fieldBases(g, gf, map[int]bool{})
		if len(gf) > 0 {
			rel := map[int]int{}
			for _, c := range hyps {
				if hasQuant(c) {
					hf := map[string]bool{}
					fieldBases(c, hf, map[int]bool{})
					n := 0
					for k := range hf {
						if gf[k] {
							n++
						}
					}
					rel[c.id] = n
				}
			}
			// cheap (one bound variable) before expensive, relevant before irrelevant within each class
			cls := func(t *Term) int {
				k := 0
				if quantWidth(t) > 1 {
					k = 2
				}
				if rel[t.id] == 0 {
					k++
				}
				return k
			}
			// opt-in (GOVC_INST_ORDER=on): the reordering made one proved obligation of Tx.buildIdxes undecidable for
			// the solvers (same hypotheses, different order of the instances), so the default keeps the original order
			if os.Getenv("GOVC_INST_ORDER") == "on" {
				sort.SliceStable(hyps, func(a, b int) bool { return cls(hyps[a]) < cls(hyps[b]) })
			}
		}
	}
	for round := 0; round < 2 && len(consts) > 0; round++ {
		var insts []*Term
		for _, c := range hyps {
			if hasQuant(c) && budget > 0 {
				b := perHyp
				if budget < b {
					b = budget
				}
				b0 := b
				i := instantiate(c, true, consts, &b, refs)
				budget -= b0 - b
				if debugInst {
					fmt.Fprintf(os.Stderr, "  inst hyp used=%d changed=%v %s\n", b0-b, i != c, debugTerm(c, 5))
				}
				if i != c {
					insts = append(insts, i)
				}
			}
		}
		// the negated goal is a hypothesis of the refutation as well: an existential goal becomes
		// a universal fact there, and needs the same instances (witness candidates)
		if hasQuant(ng) {
			i := instantiate(ng, true, consts, &budget, refs)
			if i != ng {
				insts = append(insts, i)
			}
		}
		// existentials exposed by the instances get constants of their own, which feed a second round
		var nsk []*Term
		for k, i := range insts {
			if hasQuant(i) {
				insts[k] = skolemize(i, false, &nsk)
			}
		}
		parts = append(parts, insts...)
		// index arithmetic exposed by the instances (a copied range reads src[sOff + (k - dOff)]): those sums
		// are where the facts about the source have to be instantiated in the second round
		var next []*Term
		if round == 0 && len(sk) > 0 {
			for _, x := range skolemSums(And(insts...), sk) {
				if !seen[x.id] {
					seen[x.id] = true
					next = append(next, x)
				}
			}
			for _, x := range skolemIndexes(And(insts...), sk) {
				if !seen[x.id] {
					seen[x.id] = true
					next = append(next, x)
				}
			}
		}
		if len(nsk) <= 6 {
			next = append(next, nsk...)
		}
		if len(next) == 0 {
			break
		}
		if debugInst {
			for _, c := range next {
				fmt.Fprintf(os.Stderr, "  inst round2 const %s\n", debugTerm(c, 6))
			}
		}
		consts = next
	}
	return g, pc, And(parts...)
}

// isRefVar: bound variables of pointer / map type are named ref$..., and so are their skolem constants.
// goalPointerElems returns the terms ptrs[idx] of the goal that read an element of a slice of pointers at an
// index mentioning one of the goal's skolem constants (at most two).
func goalPointerElems(g *Term, sk []*Term) []*Term {
	skid := map[int]bool{}
	for _, c := range sk {
		skid[c.id] = true
	}
	mentions := map[int]bool{}
	var has func(t *Term) bool
	has = func(t *Term) bool {
		if v, ok := mentions[t.id]; ok {
			return v
		}
		r := skid[t.id]
		for _, a := range t.args {
			if has(a) {
				r = true
			}
		}
		mentions[t.id] = r
		return r
	}
	var out []*Term
	seen := map[int]bool{}
	var walk func(t *Term)
	walk = func(t *Term) {
		if seen[t.id] || len(out) >= 2 {
			return
		}
		seen[t.id] = true
		if t.kind == 'a' && t.op == "select" && len(t.args) == 2 && !t.open {
			if row := t.args[0]; row.kind == 'a' && row.op == "select" && len(row.args) == 2 && row.args[0].kind == 'v' {
				fb := map[string]bool{}
				fieldBases(row.args[0], fb, map[int]bool{})
				ptr := false
				for k := range fb {
					if strings.HasPrefix(k, "E__") {
						ptr = true
					}
				}
				if ptr && has(t.args[1]) {
					out = append(out, t)
				}
			}
		}
		for _, a := range t.args {
			walk(a)
		}
	}
	walk(g)
	return out
}

// slimPC keeps the quantifier-free hypotheses and those quantified hypotheses that mention a heap location
// (field, element or map heap, in any state) the goal mentions, or no heap location at all (allocation facts,
// uninterpreted functions). It returns the number of hypotheses dropped.
func slimPC(pc, goal *Term) (*Term, int) {
	gf := map[string]bool{}
	fieldBases(goal, gf, map[int]bool{})
	var keep []*Term
	dropped := 0
	for _, c := range conjuncts(pc) {
		if !hasQuant(c) {
			keep = append(keep, c)
			continue
		}
		hf := map[string]bool{}
		fieldBases(c, hf, map[int]bool{})
		rel := len(hf) == 0
		for k := range hf {
			if gf[k] {
				rel = true
			}
		}
		if rel {
			keep = append(keep, c)
		} else {
			dropped++
		}
	}
	return And(keep...), dropped
}

// fieldBases collects the state-independent names of the heap symbols (fields F_, elements E_, maps M_) a term mentions.
func fieldBases(t *Term, out map[string]bool, seen map[int]bool) {
	if seen[t.id] {
		return
	}
	seen[t.id] = true
	if t.kind == 'v' && len(t.args) == 0 {
		s := t.op
		for _, tag := range []string{"F_", "E_", "M_"} {
			if i := strings.Index(s, tag); i >= 0 && (i == 0 || s[i-1] == '_' || s[i-1] == '$') {
				b := s[i:]
				if j := strings.IndexByte(b, '!'); j >= 0 {
					b = b[:j]
				}
				out[b] = true
				break
			}
		}
	}
	for _, a := range t.args {
		fieldBases(a, out, seen)
	}
}

// quantWidth is the largest number of variables bound by one quantifier of t (2 or more marks the
// hypotheses whose instantiation grows quadratically with the number of candidates).
func quantWidth(t *Term) int {
	w := 0
	var walk func(t *Term, seen map[int]bool)
	walk = func(t *Term, seen map[int]bool) {
		if seen[t.id] || t.qd == 0 {
			return
		}
		seen[t.id] = true
		if t.kind == 'q' {
			n := len(t.bvars)
			if t.qd > 1 {
				n++
			}
			if n > w {
				w = n
			}
		}
		for _, a := range t.args {
			walk(a, seen)
		}
	}
	walk(t, map[int]bool{})
	return w
}

func isRefVar(t *Term) bool {
	for i := 0; i+4 <= len(t.op); i++ {
		if t.op[i:i+4] == "ref$" || t.op[i:i+4] == "ref_" {
			return true
		}
	}
	return false
}
