package main

// Symbolic executor over go/ssa (naive form) with state merging, loops cut at invariants,
// calls replaced by contracts. Emits named proof obligations.

import (
	"fmt"
	"go/constant"
	"go/token"
	"go/types"
	"math/big"
	"os"
	"sort"
	"strings"

	"golang.org/x/tools/go/ssa"
)

type Oblig struct {
	Name    string
	Kind    string
	Func    string
	Tags    []string
	PC      *Term
	Goal    *Term
	Text    string
	Pos     string
	Quant   bool
	Inputs  []namedTerm // for counterexample extraction
	Result  *SolverResult
	Candidate *SolverResult // sat answer after dropping quantified facts (needs replay to be believed)
	Vacuity bool
	TimeoutS int // per-obligation solver timeout override
	Hints    []*Term // ground integer terms offered for hypothesis instantiation
	RefHints []*Term // ground reference terms (values of pointer locals) offered likewise
	Script     string // rendered SMT-LIB query (renderOblig)
	CandScript string // query with the quantified facts dropped (candidate counterexamples)
	SlimScript string // query with only the quantified facts that mention a heap location of the goal (sound: fewer hypotheses)
	Trivial    bool   // discharged by the simplifier
}

type namedTerm struct {
	Name string
	T    *Term
}

type FuncRun struct {
	eng      *Engine
	fn       *ssa.Function
	contract *FuncContract
	name     string
	obligs   []*Oblig
	entry    *State // state right after preconditions (for old())
	params   map[string]Val
	inputs   []namedTerm
	notes    []string
	canaries []*Oblig // reachability checks: each PC must not be unsat
	inlined  map[string]bool
	assumedCallees map[string]bool
}

type loopInfo struct {
	header  *ssa.BasicBlock
	body    map[*ssa.BasicBlock]bool
	ordinal int
	// per-execution data
	headState *State // state at head after havoc+assume (frame reference)
	modLocs   []modLoc
	hasMod    bool
}

type Frame struct {
	run      *FuncRun
	fn       *ssa.Function
	prefix   string // obligation name prefix for inlined frames
	regs     map[ssa.Value]Val
	incoming map[*ssa.BasicBlock][]edgeState
	order    []*ssa.BasicBlock
	loops    map[*ssa.BasicBlock]*loopInfo
	loopList []*loopInfo
	retCell  *ssa.Alloc
	deferCells map[*ssa.Defer]*ssa.Alloc
	returns  []edgeState
	depth    int
	dry      int
	dryBack  []*State
	dryHead  *ssa.BasicBlock
	top      bool
	contract *FuncContract // contract whose loop annotations apply (nil for inlined)
	ordinals map[string]map[ssa.Instruction]int
	cellName map[string]*ssa.Alloc
	entryParams map[string]Val
	curLoop  *loopInfo
	callOrd  map[string]map[ssa.Instruction]int
	ifOrd    map[*ssa.If]int
	pendingRet *Val // result tuple while an `at return` assertion is evaluated
	loopPre  *State // state before the innermost loop being entered / closed (for sinceLoop())
	hookVars map[string]Val // extra bindings ($key, $value) while an anchored assertion is evaluated
}

func (fr *Frame) dryMode() bool { return fr.dry > 0 || fr.run.eng.dryAll }

func posString(prog *ssa.Program, p token.Pos) string {
	if !p.IsValid() {
		return ""
	}
	pp := prog.Fset.Position(p)
	return fmt.Sprintf("%s:%d", shortPath(pp.Filename), pp.Line)
}

func shortPath(p string) string {
	return strings.TrimPrefix(p, "/repo/")
}

// ---------- frame setup

func newFrame(run *FuncRun, fn *ssa.Function, depth int, prefix string, contract *FuncContract) *Frame {
	fr := &Frame{run: run, fn: fn, depth: depth, prefix: prefix, regs: map[ssa.Value]Val{}, incoming: map[*ssa.BasicBlock][]edgeState{},
		loops: map[*ssa.BasicBlock]*loopInfo{}, retCell: &ssa.Alloc{Comment: "$ret"}, deferCells: map[*ssa.Defer]*ssa.Alloc{},
		contract: contract, ordinals: map[string]map[ssa.Instruction]int{}, cellName: map[string]*ssa.Alloc{},
		callOrd: map[string]map[ssa.Instruction]int{}, ifOrd: map[*ssa.If]int{}}
	fr.analyze()
	return fr
}

func (fr *Frame) analyze() {
	fn := fr.fn
	// reverse post-order ignoring back edges
	visited := map[*ssa.BasicBlock]bool{}
	var post []*ssa.BasicBlock
	var dfs func(b *ssa.BasicBlock)
	dfs = func(b *ssa.BasicBlock) {
		visited[b] = true
		// visit successors in reverse so that RPO follows source order more closely
		for i := len(b.Succs) - 1; i >= 0; i-- {
			s := b.Succs[i]
			if s.Dominates(b) { // back edge
				continue
			}
			if !visited[s] {
				dfs(s)
			}
		}
		post = append(post, b)
	}
	dfs(fn.Blocks[0])
	for i := len(post) - 1; i >= 0; i-- {
		fr.order = append(fr.order, post[i])
	}
	// loops
	for _, b := range fn.Blocks {
		for _, s := range b.Succs {
			if s.Dominates(b) {
				li := fr.loops[s]
				if li == nil {
					li = &loopInfo{header: s, body: map[*ssa.BasicBlock]bool{s: true}}
					fr.loops[s] = li
				}
				// natural loop of back edge b->s
				var stack []*ssa.BasicBlock
				if !li.body[b] {
					li.body[b] = true
					stack = append(stack, b)
				}
				for len(stack) > 0 {
					x := stack[len(stack)-1]
					stack = stack[:len(stack)-1]
					for _, p := range x.Preds {
						if !li.body[p] {
							li.body[p] = true
							stack = append(stack, p)
						}
					}
				}
			}
		}
	}
	for _, li := range fr.loops {
		fr.loopList = append(fr.loopList, li)
	}
	sort.Slice(fr.loopList, func(i, j int) bool {
		pi, pj := loopPos(fr.loopList[i]), loopPos(fr.loopList[j])
		if pi != pj {
			return pi < pj
		}
		return fr.loopList[i].header.Index < fr.loopList[j].header.Index
	})
	for i, li := range fr.loopList {
		li.ordinal = i + 1
	}
	// ordinals of sites by (position, block, index)
	type site struct {
		ins ssa.Instruction
		pos token.Pos
		b, i int
	}
	var sites []site
	for _, b := range fn.Blocks {
		for i, ins := range b.Instrs {
			p := ins.Pos()
			if x, ok := ins.(*ssa.If); ok && !p.IsValid() {
				p = condPos(x.Cond)
			}
			sites = append(sites, site{ins, p, b.Index, i})
		}
	}
	sort.SliceStable(sites, func(i, j int) bool {
		if sites[i].pos != sites[j].pos {
			return sites[i].pos < sites[j].pos
		}
		if sites[i].b != sites[j].b {
			return sites[i].b < sites[j].b
		}
		return sites[i].i < sites[j].i
	})
	add := func(kind string, ins ssa.Instruction) {
		m := fr.ordinals[kind]
		if m == nil {
			m = map[ssa.Instruction]int{}
			fr.ordinals[kind] = m
		}
		if _, ok := m[ins]; !ok {
			m[ins] = len(m) + 1
		}
	}
	for _, s := range sites {
		switch ins := s.ins.(type) {
		case *ssa.FieldAddr:
			add("panic.nil", ins)
		case *ssa.IndexAddr, *ssa.Index:
			add("panic.index", ins)
			add("panic.nil", ins)
		case *ssa.Slice:
			add("panic.slice", ins)
		case *ssa.TypeAssert:
			if !ins.CommaOk {
				add("panic.assert", ins)
			}
		case *ssa.MapUpdate:
			add("panic.mapnil", ins)
		case *ssa.MakeSlice:
			add("panic.make", ins)
		case *ssa.UnOp:
			if ins.Op == token.MUL {
				add("panic.nil", ins)
			}
			if ins.Op == token.SUB {
				add("overflow", ins)
			}
		case *ssa.BinOp:
			switch ins.Op {
			case token.ADD, token.SUB, token.MUL, token.SHL:
				if b, ok := ins.Type().Underlying().(*types.Basic); ok && b.Info()&types.IsInteger != 0 {
					add("overflow", ins)
				}
			case token.QUO, token.REM:
				add("panic.div", ins)
			}
		case *ssa.Convert:
			add("conv", ins)
		case *ssa.Lookup:
			add("panic.index", ins)
		case *ssa.Call:
			add("panic.nil", ins)
			add("panic.call", ins)
			name := calleeName(ins.Common())
			m := fr.callOrd[name]
			if m == nil {
				m = map[ssa.Instruction]int{}
				fr.callOrd[name] = m
			}
			m[ins] = len(m) + 1
		case *ssa.Store:
			add("panic.nil", ins)
		case *ssa.Panic:
			add("panic.explicit", ins)
		case *ssa.Return:
			add("return", ins)
		case *ssa.If:
			fr.ifOrd[ins] = len(fr.ifOrd) + 1
		}
	}
	// cell names
	count := map[string]int{}
	for _, b := range fn.Blocks {
		for _, ins := range b.Instrs {
			if a, ok := ins.(*ssa.Alloc); ok && a.Comment != "" {
				count[a.Comment]++
				name := a.Comment
				if count[a.Comment] > 1 {
					name = fmt.Sprintf("%s@%d", a.Comment, count[a.Comment])
				}
				fr.cellName[name] = a
			}
		}
	}
}

// condPos finds a source position for a branch condition (If instructions carry none).
func condPos(v ssa.Value) token.Pos {
	for depth := 0; depth < 4 && v != nil; depth++ {
		if p := v.Pos(); p.IsValid() {
			return p
		}
		switch x := v.(type) {
		case *ssa.Extract:
			v = x.Tuple
		case *ssa.UnOp:
			v = x.X
		case *ssa.BinOp:
			v = x.X
		default:
			return token.NoPos
		}
	}
	return token.NoPos
}

func loopPos(li *loopInfo) token.Pos {
	best := token.NoPos
	for _, ins := range li.header.Instrs {
		if p := ins.Pos(); p.IsValid() && (best == token.NoPos || p < best) {
			best = p
		}
	}
	if best == token.NoPos {
		// use min pos over body
		for b := range li.body {
			for _, ins := range b.Instrs {
				if p := ins.Pos(); p.IsValid() && (best == token.NoPos || p < best) {
					best = p
				}
			}
		}
	}
	return best
}

func calleeName(c *ssa.CallCommon) string {
	if c.IsInvoke() {
		return c.Method.Name()
	}
	if f := c.StaticCallee(); f != nil {
		return f.Name()
	}
	if b, ok := c.Value.(*ssa.Builtin); ok {
		return b.Name()
	}
	return "$dynamic"
}

// ---------- obligations

func (fr *Frame) oblige(kind string, ord int, suffix string, tags []string, st *State, goal *Term, text string, pos token.Pos) {
	if fr.dryMode() {
		return
	}
	if dbg := os.Getenv("GOVC_DEBUG_OBLIG"); dbg != "" && strings.Contains(fmt.Sprintf("%s#%s%s[%d]%s", fr.run.name, fr.prefix, kind, ord, suffix), dbg) {
		fmt.Fprintf(os.Stderr, "DEBUG %s[%d]%s goal=%s pcFalse=%v\n", kind, ord, suffix, debugTerm(goal, 6), st.pc == False)
	}
	name := fmt.Sprintf("%s#%s%s", fr.run.name, fr.prefix, kind)
	if ord > 0 {
		name += fmt.Sprintf("[%d]", ord)
	}
	name += suffix
	o := &Oblig{Name: name, Kind: kind, Func: fr.run.name, Tags: tags, PC: st.pc, Goal: goal, Text: text,
		Pos: posString(fr.run.eng.prog, pos), Inputs: fr.run.inputs}
	// instantiation hints: the current values of integer locals (loop counters, indexes)
	for _, c := range sortedCells(st.cells) {
		v := st.cells[c]
		if v.K == KScalar && v.S.sort == SInt && v.S.kind != 'c' && v.T != nil {
			if _, _, isInt := intRange(v.T); isInt && len(o.Hints) < 8 {
				o.Hints = append(o.Hints, v.S)
			} else if isRefType(v.T) && len(o.RefHints) < 6 {
				// current values of pointer locals (cursors of list / tree walks)
				o.RefHints = append(o.RefHints, v.S)
			}
		}
	}
	fr.run.obligs = append(fr.run.obligs, o)
}

// obligeSplit emits one obligation per quantified conjunct of the goal when there are several (names
// <base>/q1, /q2, ... before the anchor suffix) and one for the quantifier-free rest under the plain name:
// a conjunction of universals negates to a disjunction of existentials, which is much harder to refute
// in one query than conjunct by conjunct.
func (fr *Frame) obligeSplit(kind string, ord int, suffix string, tags []string, st *State, goal *Term, text string, pos token.Pos) {
	// A ==> (B1 && B2 && ...): split the consequent, each part under the same antecedent
	if goal.kind == 'a' && goal.op == "=>" && len(goal.args) == 2 {
		ant, cons := goal.args[0], goal.args[1]
		nqc := 0
		for _, cj := range conjuncts(cons) {
			if hasQuant(cj) {
				nqc++
			}
		}
		if nqc >= 2 {
			var plain []*Term
			k := 0
			for _, cj := range conjuncts(cons) {
				if hasQuant(cj) {
					k++
					fr.oblige(kind, ord, fmt.Sprintf("/q%d%s", k, suffix), tags, st, Implies(ant, cj), text, pos)
				} else {
					plain = append(plain, cj)
				}
			}
			fr.oblige(kind, ord, suffix, tags, st, Implies(ant, And(plain...)), text, pos)
			return
		}
	}
	nq := 0
	for _, cj := range conjuncts(goal) {
		if hasQuant(cj) {
			nq++
		}
	}
	if nq < 2 {
		fr.oblige(kind, ord, suffix, tags, st, goal, text, pos)
		return
	}
	var plain []*Term
	k := 0
	for _, cj := range conjuncts(goal) {
		if hasQuant(cj) {
			k++
			fr.oblige(kind, ord, fmt.Sprintf("/q%d%s", k, suffix), tags, st, cj, text, pos)
		} else {
			plain = append(plain, cj)
		}
	}
	fr.oblige(kind, ord, suffix, tags, st, And(plain...), text, pos)
}

func (fr *Frame) safetyOn(kind string) ([]string, bool) {
	c := fr.run.contract
	if c == nil {
		return nil, false
	}
	tags, ok := c.Safety[kind]
	return tags, ok
}

// panicCheck emits a no-panic obligation (when safety panics is on) and assumes the condition afterwards.
func (fr *Frame) panicCheck(kind string, ins ssa.Instruction, st *State, cond *Term, text string) {
	if cond == True {
		return
	}
	if tags, ok := fr.safetyOn("panics"); ok {
		ord := fr.ordinals[kind][ins]
		fr.oblige(kind, ord, "", tags, st, cond, text, ins.Pos())
	}
	st.assume(cond)
}

// guardCheck emits a lock-typestate obligation for an access to a field declared `spec guarded ... by g`:
// reads need g >= 1, writes need g == 2. Only in functions whose contract says `safety[..] locks`.
func (fr *Frame) guardCheck(write bool, ins ssa.Instruction, a *Addr, st *State) {
	if a == nil || a.Kind != AField || fr.dryMode() {
		return
	}
	g, ok := fr.run.eng.contracts.Guarded[a.Key]
	if !ok {
		return
	}
	tags, on := fr.safetyOn("locks")
	if !on {
		return
	}
	kind := "guard.read"
	if write {
		kind = "guard.write"
	}
	m := fr.ordinals[kind]
	if m == nil {
		m = map[ssa.Instruction]int{}
		fr.ordinals[kind] = m
	}
	if _, seen := m[ins]; !seen {
		m[ins] = len(m) + 1
	}
	lock := st.H("ghost:"+g, SInt)
	cond := Ge(lock, IntLit(1))
	text := "read of " + a.Key[2:] + " needs the lock (" + g + " >= 1)"
	if write {
		cond = Eq(lock, IntLit(2))
		text = "write of " + a.Key[2:] + " needs the write lock (" + g + " == 2)"
	}
	fr.oblige(kind, m[ins], "", tags, st, cond, text, ins.Pos())
}

// ---------- execution

type execResult struct {
	st  *State
	ret Val
}

// exec runs the function body from the given entry state and returns the merged exit state
// (nil when no path returns) together with the result tuple.
func (fr *Frame) exec(st *State, args []Val) (*State, Val) {
	fn := fr.fn
	if len(fn.Blocks) == 0 {
		panic(outsideSubset{"function without body: " + fn.String()})
	}
	for i, p := range fn.Params {
		fr.regs[p] = args[i]
	}
	for _, fv := range fn.FreeVars {
		if _, bound := fr.regs[fv]; bound || !fr.top {
			continue // inlined closure: bound by the caller
		}
		// a function literal verified on its own: each captured variable is a cell with an arbitrary
		// well-typed value (the enclosing function's state is not known here)
		pt, ok := fv.Type().(*types.Pointer)
		if !ok {
			continue
		}
		c := &ssa.Alloc{Comment: "$free." + fv.Name()}
		cellID(c)
		v := freshVal("fv_"+fv.Name(), pt.Elem())
		st.assume(wellTyped(v, st))
		st.assumeAllocated(v)
		st.cells[c] = v
		fr.regs[fv] = Val{K: KAddr, T: fv.Type(), A: &Addr{Kind: ACell, Cell: c, T: pt.Elem()}}
	}
	// defer flags
	for _, b := range fn.Blocks {
		for _, ins := range b.Instrs {
			if d, ok := ins.(*ssa.Defer); ok {
				c := &ssa.Alloc{Comment: "$defer"}
				fr.deferCells[d] = c
				cellID(c)
				st.cells[c] = scalar(False, types.Typ[types.Bool])
			}
		}
	}
	if fr.top {
		fr.atHook("entry", "", nil, st)
	}
	fr.incoming[fn.Blocks[0]] = []edgeState{{nil, st}}
	fr.runBlocks(fr.order, nil, nil)
	if len(fr.returns) == 0 {
		return nil, Val{K: KUnit}
	}
	out := mergeStates(fr.returns)
	ret := out.cells[fr.retCell]
	if out == fr.returns[0].st {
		out = out.clone()
	}
	delete(out.cells, fr.retCell)
	return out, ret
}

func (fr *Frame) runBlocks(order []*ssa.BasicBlock, in map[*ssa.BasicBlock]bool, dryHead *ssa.BasicBlock) {
	for _, b := range order {
		if in != nil && !in[b] {
			continue
		}
		es := fr.incoming[b]
		if len(es) == 0 {
			continue
		}
		st := mergeStates(es)
		if len(es) == 1 {
			st = st.clone()
		}
		if st.pc == False {
			continue
		}
		var saveLoop *loopInfo
		if li := fr.loops[b]; li != nil && b != dryHead {
			st = fr.enterLoop(li, st)
			if st == nil {
				continue
			}
		}
		_ = saveLoop
		fr.execBlock(b, st, in, dryHead)
	}
}

func (fr *Frame) edge(from, to *ssa.BasicBlock, st *State, in map[*ssa.BasicBlock]bool, dryHead *ssa.BasicBlock) {
	if st.pc == False {
		return
	}
	if to.Dominates(from) { // back edge
		li := fr.loops[to]
		if to == dryHead {
			fr.dryBack = append(fr.dryBack, st)
			return
		}
		fr.backEdge(li, st, from)
		return
	}
	if in != nil && !in[to] {
		return // leaving the region of a dry run
	}
	fr.incoming[to] = append(fr.incoming[to], edgeState{from, st})
}

func (fr *Frame) execBlock(b *ssa.BasicBlock, st *State, in map[*ssa.BasicBlock]bool, dryHead *ssa.BasicBlock) {
	for _, ins := range b.Instrs {
		switch x := ins.(type) {
		case *ssa.If:
			c := fr.val(x.Cond, st).S
			fr.branchHook(x, st, c)
			t := st.clone()
			t.assume(c)
			f := st
			f.assume(Not(c))
			fr.edge(b, b.Succs[0], t, in, dryHead)
			fr.edge(b, b.Succs[1], f, in, dryHead)
			return
		case *ssa.Jump:
			fr.edge(b, b.Succs[0], st, in, dryHead)
			return
		case *ssa.Return:
			if dryHead != nil {
				return // a dry run of this frame's own loop: paths leaving the loop are not followed
			}
			var rv Val
			if len(x.Results) == 1 {
				rv = coerce(fr.val(x.Results[0], st), fr.fn.Signature.Results().At(0).Type())
			} else {
				rv = Val{K: KTuple, T: fr.fn.Signature.Results()}
				for i, r := range x.Results {
					rv.F = append(rv.F, coerce(fr.val(r, st), fr.fn.Signature.Results().At(i).Type()))
				}
			}
			fr.pendingRet = &rv
			fr.atHook("return", "", ins, st)
			fr.pendingRet = nil
			cellID(fr.retCell)
			st.cells[fr.retCell] = rv
			fr.returns = append(fr.returns, edgeState{b, st})
			return
		case *ssa.Panic:
			if tags, ok := fr.safetyOn("panics"); ok {
				fr.oblige("panic.explicit", fr.ordinals["panic.explicit"][ins], "", tags, st, False, "explicit panic is unreachable", ins.Pos())
			}
			return
		default:
			fr.execInstr(ins, st)
			if st.pc == False {
				return
			}
		}
	}
}

// val evaluates an SSA value in a state.
func (fr *Frame) val(v ssa.Value, st *State) Val {
	switch x := v.(type) {
	case *ssa.Const:
		return constVal(x)
	case *ssa.Global:
		return Val{K: KAddr, T: x.Type(), A: &Addr{Kind: AGlobal, Key: "G:" + x.Pkg.Pkg.Name() + "." + x.Name(), T: x.Type().(*types.Pointer).Elem()}}
	case *ssa.Function:
		return Val{K: KFunc, T: x.Type(), Fn: x}
	case *ssa.Builtin:
		return Val{K: KFunc, T: x.Type()}
	case *ssa.FreeVar:
		if r, ok := fr.regs[v]; ok {
			return r
		}
		panic(outsideSubset{"free variable " + x.Name()})
	}
	r, ok := fr.regs[v]
	if !ok {
		panic(outsideSubset{fmt.Sprintf("use of undefined register %s in %s", v.Name(), fr.fn.Name())})
	}
	return r
}

func constVal(c *ssa.Const) Val {
	t := c.Type()
	if c.Value == nil {
		// nil / zero
		switch t.Underlying().(type) {
		case *types.Slice, *types.Interface, *types.Struct:
			return zeroVal(t)
		}
		if b, ok := t.Underlying().(*types.Basic); ok && b.Kind() != types.UntypedNil && b.Kind() != types.UnsafePointer {
			return zeroVal(t)
		}
		return scalar(IntLit(0), t)
	}
	switch c.Value.Kind() {
	case constant.Bool:
		return scalar(BoolLit(constant.BoolVal(c.Value)), t)
	case constant.String:
		return scalar(StrLit(constant.StringVal(c.Value)), t)
	case constant.Int:
		if b, ok := t.Underlying().(*types.Basic); ok && b.Info()&types.IsFloat != 0 {
			return scalar(ToReal(bigOf(c.Value)), t)
		}
		return scalar(bigOf(c.Value), t)
	case constant.Float:
		if b, ok := t.Underlying().(*types.Basic); ok && b.Info()&types.IsInteger != 0 {
			return scalar(bigOf(constant.ToInt(c.Value)), t)
		}
		r, _ := constant.Float64Val(c.Value)
		if i := constant.ToInt(c.Value); i.Kind() == constant.Int {
			return scalar(ToReal(bigOf(i)), t)
		}
		return scalar(RealLit(fmt.Sprintf("%f", r)), t)
	}
	panic(outsideSubset{"constant kind " + c.Value.Kind().String()})
}

func bigOf(v constant.Value) *Term {
	if i, ok := constant.Int64Val(v); ok {
		return IntLit(i)
	}
	n, _ := new(big.Int).SetString(v.ExactString(), 10)
	return BigLit(n)
}

func (fr *Frame) execInstr(ins ssa.Instruction, st *State) {
	switch x := ins.(type) {
	case *ssa.Alloc:
		fr.regs[x] = fr.execAlloc(x, st)
	case *ssa.Store:
		addr := fr.val(x.Addr, st)
		v := fr.val(x.Val, st)
		if _, isParam := x.Val.(*ssa.Parameter); isParam && addr.K == KAddr && addr.A.Kind == ACell {
			// copying a parameter into its local cell is not a source-level assignment: no anchors fire
			cellID(addr.A.Cell)
			st.cells[addr.A.Cell] = coerce(v, addr.A.T)
			return
		}
		fr.storeTo(x, addr, v, st)
	case *ssa.UnOp:
		fr.regs[x] = fr.execUnOp(x, st)
	case *ssa.BinOp:
		fr.regs[x] = fr.execBinOp(x, st)
	case *ssa.FieldAddr:
		fr.regs[x] = fr.execFieldAddr(x, st)
	case *ssa.Field:
		sv := fr.val(x.X, st)
		fr.regs[x] = sv.F[x.Field]
	case *ssa.IndexAddr:
		fr.regs[x] = fr.execIndexAddr(x, st)
	case *ssa.Index:
		fr.regs[x] = fr.execIndex(x, st)
	case *ssa.Extract:
		tv := fr.val(x.Tuple, st)
		fr.regs[x] = tv.F[x.Index]
	case *ssa.Call:
		fr.regs[x] = fr.execCall(x, x.Common(), st)
	case *ssa.Defer:
		// remember the call values now; run at RunDefers
		st.cells[fr.deferCells[x]] = scalar(True, types.Typ[types.Bool])
		for _, a := range x.Call.Args {
			fr.regs[deferArg{x, a}] = fr.val(a, st)
		}
	case *ssa.RunDefers:
		fr.execRunDefers(x, st)
	case *ssa.ChangeType:
		v := fr.val(x.X, st)
		v.T = x.Type()
		fr.regs[x] = v
	case *ssa.ChangeInterface:
		v := fr.val(x.X, st)
		v.T = x.Type()
		fr.regs[x] = v
	case *ssa.Convert:
		fr.regs[x] = fr.execConvert(x, st)
	case *ssa.MakeInterface:
		fr.regs[x] = fr.makeIface(fr.val(x.X, st), x.X.Type(), x.Type())
	case *ssa.TypeAssert:
		fr.regs[x] = fr.execTypeAssert(x, st)
	case *ssa.MakeSlice:
		fr.regs[x] = fr.execMakeSlice(x, st)
	case *ssa.MakeMap:
		fr.regs[x] = fr.execMakeMap(x, st)
	case *ssa.MapUpdate:
		fr.execMapUpdate(x, st)
	case *ssa.Lookup:
		fr.regs[x] = fr.execLookup(x, st)
	case *ssa.Slice:
		fr.regs[x] = fr.execSlice(x, st)
	case *ssa.Range:
		fr.regs[x] = fr.execRange(x, st)
	case *ssa.Next:
		fr.regs[x] = fr.execNext(x, st)
	case *ssa.Phi:
		fr.regs[x] = fr.execPhi(x, st)
	case *ssa.MakeClosure:
		fv := Val{K: KFunc, T: x.Type(), Fn: x.Fn.(*ssa.Function)}
		for _, b := range x.Bindings {
			fv.Cl = append(fv.Cl, fr.val(b, st))
		}
		fr.regs[x] = fv
	case *ssa.DebugRef:
	default:
		panic(outsideSubset{fmt.Sprintf("instruction %T in %s", ins, fr.fn.Name())})
	}
}

type deferArg struct {
	d *ssa.Defer
	v ssa.Value
}

func (deferArg) Name() string                  { return "deferarg" }
func (deferArg) String() string                { return "deferarg" }
func (deferArg) Type() types.Type              { return nil }
func (deferArg) Parent() *ssa.Function         { return nil }
func (deferArg) Referrers() *[]ssa.Instruction { return nil }
func (deferArg) Pos() token.Pos                { return token.NoPos }

// ---- allocation

func isStructLike(t types.Type) bool {
	switch t.Underlying().(type) {
	case *types.Struct:
		return true
	}
	return false
}

func (fr *Frame) execAlloc(x *ssa.Alloc, st *State) Val {
	et := x.Type().(*types.Pointer).Elem()
	switch u := et.Underlying().(type) {
	case *types.Struct:
		r := st.freshRef("new_" + shortTypeName(et))
		st.assume(Eq(RefTag(r), tagOfStruct(et)))
		addr := &Addr{Kind: AField, Ref: r, Key: fieldKey(et, ""), T: et}
		st.store(addr, zeroVal(et))
		fr.noteType(r, et, st)
		return scalar(r, x.Type())
	case *types.Array:
		a := st.freshArr("arr")
		// zero-initialised row
		for _, l := range shapeOf(u.Elem()) {
			key := elemKey(u.Elem()) + l.suffix
			h := st.H(key, ArrSort(SInt, ArrSort(SInt, l.sort)))
			z := zeroOfSort(l.sort)
			st.setH(key, Store(h, a, ConstArr(ArrSort(SInt, l.sort), z)))
		}
		// specifications name the variable: its value is the array (id), the contents live in the element heap
		cellID(x)
		st.cells[x] = scalar(a, et)
		return scalar(a, x.Type())
	}
	// plain cell
	cellID(x)
	st.cells[x] = zeroVal(et)
	return Val{K: KAddr, T: x.Type(), A: &Addr{Kind: ACell, Cell: x, T: et}}
}

func leafType(l leaf) types.Type {
	switch l.sort {
	case SBool:
		return types.Typ[types.Bool]
	case SReal:
		return types.Typ[types.Float64]
	case SStr:
		return types.Typ[types.String]
	}
	return types.Typ[types.Int]
}

// noteType is a hook for dynamic type tags (unused: Burstall model separates types).
func (fr *Frame) noteType(r *Term, t types.Type, st *State) {}

// ---- loads / stores

func (fr *Frame) storeTo(ins ssa.Instruction, addr Val, v Val, st *State) {
	switch addr.K {
	case KAddr:
		if addr.A.Kind == ACell {
			fr.atHook("store", addr.A.Cell.Comment, ins, st)
		}
		fr.guardCheck(true, ins, addr.A, st)
		st.store(addr.A, coerce(v, addr.A.T))
		if addr.A.Kind == ACell {
			fr.atHook("stored", addr.A.Cell.Comment, ins, st)
		}
	case KScalar:
		// pointer to a heap struct: whole-struct store
		et, _ := derefStruct(addr.T)
		if et == nil {
			if p, ok := addr.T.Underlying().(*types.Pointer); ok {
				if at, isArr := p.Elem().Underlying().(*types.Array); isArr && v.K == KScalar {
					// *p = arrayValue: arrays are values, the row is copied
					fr.panicCheck("panic.nil", ins, st, Neq(addr.S, IntLit(0)), "store through nil pointer")
					for _, l := range shapeOf(at.Elem()) {
						key := elemKey(at.Elem()) + l.suffix
						h := st.H(key, ArrSort(SInt, ArrSort(SInt, l.sort)))
						st.setH(key, Store(h, addr.S, Select(h, v.S)))
					}
					return
				}
			}
			panic(outsideSubset{"store through pointer of type " + addr.T.String()})
		}
		fr.panicCheck("panic.nil", ins, st, Neq(addr.S, IntLit(0)), "store through nil pointer")
		st.store(&Addr{Kind: AField, Ref: addr.S, Key: fieldKey(et, ""), T: et}, v)
	default:
		panic(outsideSubset{"store to non-address"})
	}
}

func (fr *Frame) execUnOp(x *ssa.UnOp, st *State) Val {
	v := fr.val(x.X, st)
	switch x.Op {
	case token.MUL:
		switch v.K {
		case KAddr:
			fr.guardCheck(false, x, v.A, st)
			return st.load(v.A)
		case KScalar:
			et, _ := derefStruct(v.T)
			if et == nil {
				if p, ok := v.T.Underlying().(*types.Pointer); ok {
					if at, isArr := p.Elem().Underlying().(*types.Array); isArr {
						// loading an array value copies it: a fresh row with the same contents
						a := st.freshArr("arrcopy")
						for _, l := range shapeOf(at.Elem()) {
							key := elemKey(at.Elem()) + l.suffix
							h := st.H(key, ArrSort(SInt, ArrSort(SInt, l.sort)))
							st.setH(key, Store(h, a, Select(h, v.S)))
						}
						return scalar(a, p.Elem())
					}
				}
				panic(outsideSubset{"load through pointer of type " + v.T.String()})
			}
			fr.panicCheck("panic.nil", x, st, Neq(v.S, IntLit(0)), "nil pointer dereference")
			return st.load(&Addr{Kind: AField, Ref: v.S, Key: fieldKey(et, ""), T: et})
		}
		panic(outsideSubset{"load from non-address"})
	case token.NOT:
		return scalar(Not(v.S), x.Type())
	case token.SUB:
		if v.S.sort == SReal {
			return scalar(Neg(v.S), x.Type())
		}
		r := Neg(v.S)
		return scalar(fr.arithResult(x, r, x.Type(), st, "negation overflows"), x.Type())
	}
	panic(outsideSubset{"unary operator " + x.Op.String()})
}

// arithResult applies overflow checking / wrapping to a mathematical result.
func (fr *Frame) arithResult(ins ssa.Instruction, r *Term, t types.Type, st *State, text string) *Term {
	lo, hi, ok := intRange(t)
	if !ok {
		return r
	}
	if lit, isLit := litVal(r); isLit && lit.Cmp(lo) >= 0 && lit.Cmp(hi) <= 0 {
		return r
	}
	ord := fr.ordinals["overflow"][ins]
	c := fr.run.contract
	if fr.top && c != nil && c.Wraps[ord] {
		return wrapTo(r, lo, hi)
	}
	if tags, on := fr.safetyOn("overflow"); on {
		fr.oblige("overflow", ord, "", tags, st, And(Le(BigLit(lo), r), Le(r, BigLit(hi))), text, ins.Pos())
		st.assume(And(Le(BigLit(lo), r), Le(r, BigLit(hi))))
		return r
	}
	// machine arithmetic treated as mathematical (stated assumption)
	fr.run.noteOnce("machine arithmetic treated as mathematical in " + fr.fn.Name())
	st.assume(And(Le(BigLit(lo), r), Le(r, BigLit(hi))))
	return r
}

func wrapTo(r *Term, lo, hi *big.Int) *Term {
	size := new(big.Int).Add(new(big.Int).Sub(hi, lo), big.NewInt(1))
	m := ModE(Sub(r, BigLit(lo)), BigLit(size))
	return Add(m, BigLit(lo))
}

func (run *FuncRun) noteOnce(s string) {
	for _, n := range run.notes {
		if n == s {
			return
		}
	}
	run.notes = append(run.notes, s)
}

func (fr *Frame) execBinOp(x *ssa.BinOp, st *State) Val {
	a, b := fr.val(x.X, st), fr.val(x.Y, st)
	bt := types.Typ[types.Bool]
	switch x.Op {
	case token.EQL:
		return scalar(eqVal(a, b), bt)
	case token.NEQ:
		return scalar(Not(eqVal(a, b)), bt)
	}
	if a.K != KScalar || b.K != KScalar {
		panic(outsideSubset{"binary operator on composite values"})
	}
	if a.S.sort == SStr {
		switch x.Op {
		case token.ADD:
			return scalar(Sconcat(a.S, b.S), x.Type())
		case token.LSS:
			return scalar(Lt(StrRank(a.S), StrRank(b.S)), bt)
		case token.GTR:
			return scalar(Gt(StrRank(a.S), StrRank(b.S)), bt)
		case token.LEQ:
			return scalar(Le(StrRank(a.S), StrRank(b.S)), bt)
		case token.GEQ:
			return scalar(Ge(StrRank(a.S), StrRank(b.S)), bt)
		}
		panic(outsideSubset{"string operator " + x.Op.String()})
	}
	switch x.Op {
	case token.LSS:
		return scalar(Lt(a.S, b.S), bt)
	case token.LEQ:
		return scalar(Le(a.S, b.S), bt)
	case token.GTR:
		return scalar(Gt(a.S, b.S), bt)
	case token.GEQ:
		return scalar(Ge(a.S, b.S), bt)
	case token.ADD:
		return scalar(fr.arithResult(x, Add(a.S, b.S), x.Type(), st, "addition overflows"), x.Type())
	case token.SUB:
		return scalar(fr.arithResult(x, Sub(a.S, b.S), x.Type(), st, "subtraction overflows"), x.Type())
	case token.MUL:
		return scalar(fr.arithResult(x, Mul(a.S, b.S), x.Type(), st, "multiplication overflows"), x.Type())
	case token.QUO:
		if a.S.sort == SReal {
			return scalar(DivT(a.S, b.S), x.Type())
		}
		fr.panicCheck("panic.div", x, st, Neq(b.S, IntLit(0)), "division by zero")
		return scalar(DivT(a.S, b.S), x.Type())
	case token.REM:
		fr.panicCheck("panic.div", x, st, Neq(b.S, IntLit(0)), "division by zero")
		return scalar(RemT(a.S, b.S), x.Type())
	case token.SHL:
		if n, ok := litVal(b.S); ok && n.IsInt64() && n.Int64() < 64 {
			return scalar(fr.arithResult(x, Mul(a.S, BigLit(new(big.Int).Lsh(big.NewInt(1), uint(n.Int64())))), x.Type(), st, "shift overflows"), x.Type())
		}
	case token.SHR:
		if n, ok := litVal(b.S); ok && n.IsInt64() && n.Int64() < 64 {
			// floor division by 2^n is arithmetic shift
			return scalar(App("div", SInt, a.S, BigLit(new(big.Int).Lsh(big.NewInt(1), uint(n.Int64())))), x.Type())
		}
	case token.AND, token.OR, token.XOR, token.AND_NOT:
		if x.Type().Underlying().(*types.Basic).Info()&types.IsBoolean != 0 {
			break
		}
		// uninterpreted bit operation (result in range)
		r := App("bit"+sanitize(x.Op.String()), SInt, a.S, b.S)
		DeclareFun("bit"+sanitize(x.Op.String()), []Sort{SInt, SInt}, SInt)
		st.assume(inRange(r, x.Type()))
		return scalar(r, x.Type())
	}
	panic(outsideSubset{"binary operator " + x.Op.String()})
}

func (fr *Frame) execFieldAddr(x *ssa.FieldAddr, st *State) Val {
	base := fr.val(x.X, st)
	pt := x.X.Type().Underlying().(*types.Pointer)
	stT := pt.Elem()
	f := stT.Underlying().(*types.Struct).Field(x.Field)
	switch base.K {
	case KScalar:
		fr.panicCheck("panic.nil", x, st, Neq(base.S, IntLit(0)), "nil pointer dereference (field "+f.Name()+")")
		return Val{K: KAddr, T: x.Type(), A: &Addr{Kind: AField, Ref: base.S, Key: fieldKey(stT, "") + "." + f.Name(), T: f.Type()}}
	case KAddr:
		a := *base.A
		if a.Kind == ACell {
			panic(outsideSubset{"field address of a local struct cell"})
		}
		a.Key = a.Key + "." + f.Name()
		a.T = f.Type()
		return Val{K: KAddr, T: x.Type(), A: &a}
	}
	panic(outsideSubset{"field address of non-pointer"})
}

func (fr *Frame) execIndexAddr(x *ssa.IndexAddr, st *State) Val {
	base := fr.val(x.X, st)
	idx := fr.val(x.Index, st).S
	switch bt := x.X.Type().Underlying().(type) {
	case *types.Slice:
		ln := base.F[2].S
		fr.panicCheck("panic.index", x, st, And(Ge(idx, IntLit(0)), Lt(idx, ln)), "index out of range")
		return Val{K: KAddr, T: x.Type(), A: &Addr{Kind: AElem, Arr: base.F[0].S, Idx: Add(base.F[1].S, idx), Key: elemKey(bt.Elem()), T: bt.Elem()}}
	case *types.Pointer:
		at := bt.Elem().Underlying().(*types.Array)
		if base.K == KAddr {
			// &obj.field[i] with an array-typed field: the field holds the id of its row in the element heap
			id := st.load(base.A)
			fr.panicCheck("panic.index", x, st, And(Ge(idx, IntLit(0)), Lt(idx, IntLit(at.Len()))), "array index out of range")
			return Val{K: KAddr, T: x.Type(), A: &Addr{Kind: AElem, Arr: id.S, Idx: idx, Key: elemKey(at.Elem()), T: at.Elem()}}
		}
		fr.panicCheck("panic.nil", x, st, Neq(base.S, IntLit(0)), "nil array pointer")
		fr.panicCheck("panic.index", x, st, And(Ge(idx, IntLit(0)), Lt(idx, IntLit(at.Len()))), "array index out of range")
		return Val{K: KAddr, T: x.Type(), A: &Addr{Kind: AElem, Arr: base.S, Idx: idx, Key: elemKey(at.Elem()), T: at.Elem()}}
	}
	panic(outsideSubset{"IndexAddr on " + x.X.Type().String()})
}

func (fr *Frame) execIndex(x *ssa.Index, st *State) Val {
	base := fr.val(x.X, st)
	idx := fr.val(x.Index, st).S
	switch bt := x.X.Type().Underlying().(type) {
	case *types.Basic: // string
		fr.panicCheck("panic.index", x, st, And(Ge(idx, IntLit(0)), Lt(idx, Slen(base.S))), "string index out of range")
		st.assume(inRange(Sat(base.S, idx), x.Type())) // a byte of a string (by type)
		return scalar(Sat(base.S, idx), x.Type())
	case *types.Array:
		fr.panicCheck("panic.index", x, st, And(Ge(idx, IntLit(0)), Lt(idx, IntLit(bt.Len()))), "array index out of range")
		return st.load(&Addr{Kind: AElem, Arr: base.S, Idx: idx, Key: elemKey(bt.Elem()), T: bt.Elem()})
	}
	panic(outsideSubset{"Index on " + x.X.Type().String()})
}

// ---- conversions

func (fr *Frame) execConvert(x *ssa.Convert, st *State) Val {
	v := fr.val(x.X, st)
	from, to := x.X.Type().Underlying(), x.Type().Underlying()
	fb, fok := from.(*types.Basic)
	tb, tok := to.(*types.Basic)
	switch {
	case fok && tok && fb.Info()&types.IsInteger != 0 && tb.Info()&types.IsInteger != 0:
		lo, hi, ok := intRange(x.Type())
		if !ok {
			return scalar(v.S, x.Type())
		}
		flo, fhi, fok2 := intRange(x.X.Type())
		if fok2 && flo.Cmp(lo) >= 0 && fhi.Cmp(hi) <= 0 {
			return scalar(v.S, x.Type()) // widening
		}
		inr := And(Le(BigLit(lo), v.S), Le(v.S, BigLit(hi)))
		if tags, on := fr.safetyOn("overflow"); on && fr.top {
			ord := fr.ordinals["conv"][x]
			if !fr.run.contract.Wraps[-ord] {
				fr.oblige("conv", ord, "", tags, st, inr, "integer conversion changes the value", x.Pos())
			}
		}
		return scalar(Ite(inr, v.S, wrapTo(v.S, lo, hi)), x.Type())
	case fok && tok && fb.Info()&types.IsInteger != 0 && tb.Info()&types.IsFloat != 0:
		return scalar(ToReal(v.S), x.Type())
	case fok && tok && fb.Info()&types.IsFloat != 0 && tb.Info()&types.IsFloat != 0:
		return scalar(v.S, x.Type())
	case fok && tok && fb.Info()&types.IsFloat != 0 && tb.Info()&types.IsInteger != 0:
		r := App("to_int", SInt, v.S) // floor; exact for the non-negative values used here
		return scalar(r, x.Type())
	case fok && fb.Info()&types.IsString != 0 && isByteSlice(to):
		return fr.stringToBytes(v.S, x.Type(), st)
	case tok && tb.Info()&types.IsString != 0 && isByteSlice(from):
		return scalar(bytesToString(v, st), x.Type())
	case fok && tok && fb.Info()&types.IsString != 0 && tb.Info()&types.IsString != 0:
		return scalar(v.S, x.Type())
	}
	panic(outsideSubset{fmt.Sprintf("conversion %s -> %s", x.X.Type(), x.Type())})
}

func isByteSlice(t types.Type) bool {
	s, ok := t.Underlying().(*types.Slice)
	if !ok {
		return false
	}
	b, ok := s.Elem().Underlying().(*types.Basic)
	return ok && b.Kind() == types.Uint8
}

var byteType = types.Typ[types.Uint8]

func byteHeap(st *State) *Term {
	return st.H(elemKey(byteType), ArrSort(SInt, byteRow))
}

func bytesToString(v Val, st *State) *Term {
	row := Select(byteHeap(st), v.F[0].S)
	return AbsB(row, v.F[1].S, v.F[2].S)
}

func (fr *Frame) stringToBytes(s *Term, t types.Type, st *State) Val {
	arr := st.freshArr("bytes")
	ln := Slen(s)
	row := Fresh("row", byteRow)
	j := Bound("j", SInt)
	st.assume(Forall([]*Term{j}, Implies(And(Le(IntLit(0), j), Lt(j, ln)), Eq(Select(row, j), Sat(s, j))), []*Term{Select(row, j)}))
	st.assume(StrEq(AbsB(row, IntLit(0), ln), s))
	st.setH(elemKey(byteType), Store(byteHeap(st), arr, row))
	it := types.Typ[types.Int]
	cp := Fresh("cap", SInt)
	st.assume(And(Ge(cp, ln), Lt(cp, IntLit(maxLen))))
	// Go: []byte("") is non-nil empty slice
	return Val{K: KSlice, T: t, F: []Val{scalar(arr, it), scalar(IntLit(0), it), scalar(ln, it), scalar(cp, it)}}
}

// ---- interfaces

func (fr *Frame) typeID(t types.Type) *Term {
	return IntLit(int64(fr.run.eng.typeID(t)))
}

func (fr *Frame) makeIface(v Val, from types.Type, to types.Type) Val {
	it := types.Typ[types.Int]
	if _, isIface := from.Underlying().(*types.Interface); isIface {
		v.T = to
		return v
	}
	var payload *Term
	switch v.K {
	case KScalar:
		switch v.S.sort {
		case SInt:
			payload = v.S
		case SBool:
			payload = Ite(v.S, IntLit(1), IntLit(0))
		case SStr:
			DeclareFun("str2ref", []Sort{SStr}, SInt)
			payload = App("str2ref", SInt, v.S)
		case SReal:
			DeclareFun("real2ref", []Sort{SReal}, SInt)
			payload = App("real2ref", SInt, v.S)
		}
	case KStruct:
		if len(v.F) == 0 {
			payload = IntLit(0)
		}
	}
	if payload == nil {
		panic(outsideSubset{"MakeInterface of " + from.String()})
	}
	return Val{K: KIface, T: to, F: []Val{scalar(fr.typeID(from), it), scalar(payload, it)}}
}

func (fr *Frame) execTypeAssert(x *ssa.TypeAssert, st *State) Val {
	v := fr.val(x.X, st)
	if _, isIface := x.AssertedType.Underlying().(*types.Interface); isIface {
		// interface-to-interface assertion: succeeds iff non-nil (method sets are not modelled)
		ok := Neq(v.F[0].S, IntLit(0))
		res := v
		res.T = x.AssertedType
		if x.CommaOk {
			return Val{K: KTuple, T: x.Type(), F: []Val{res, scalar(ok, types.Typ[types.Bool])}}
		}
		fr.panicCheck("panic.assert", x, st, ok, "type assertion on nil interface")
		return res
	}
	ok := Eq(v.F[0].S, fr.typeID(x.AssertedType))
	var res Val
	ls := shapeOf(x.AssertedType)
	if len(ls) == 1 && ls[0].sort == SInt {
		res = scalar(v.F[1].S, x.AssertedType)
	} else if len(ls) == 1 && ls[0].sort == SBool {
		res = scalar(Eq(v.F[1].S, IntLit(1)), x.AssertedType)
	} else {
		panic(outsideSubset{"type assertion to " + x.AssertedType.String()})
	}
	if isRefType(x.AssertedType) {
		// an interface whose dynamic type is a pointer/map type holds a well-typed reference (as for any loaded pointer)
		st.assume(Implies(ok, And(wellTyped(res, st), refTagFact(res))))
	}
	if x.CommaOk {
		z := zeroVal(x.AssertedType)
		return Val{K: KTuple, T: x.Type(), F: []Val{iteVal(ok, res, z), scalar(ok, types.Typ[types.Bool])}}
	}
	fr.panicCheck("panic.assert", x, st, ok, "type assertion to "+typeKey(x.AssertedType)+" fails")
	return res
}

// ---- slices

func (fr *Frame) execMakeSlice(x *ssa.MakeSlice, st *State) Val {
	ln := fr.val(x.Len, st).S
	cp := fr.val(x.Cap, st).S
	fr.panicCheck("panic.make", x, st, And(Ge(ln, IntLit(0)), Le(ln, cp)), "makeslice: len out of range")
	// global stated assumption: slice lengths stay below 2^31 (allocation size is a resource question, not decided here)
	st.assume(Lt(cp, IntLit(maxLen)))
	et := x.Type().Underlying().(*types.Slice).Elem()
	arr := st.freshArr("mk")
	for _, l := range shapeOf(et) {
		key := elemKey(et) + l.suffix
		h := st.H(key, ArrSort(SInt, ArrSort(SInt, l.sort)))
		z := zeroOfSort(l.sort)
		st.setH(key, Store(h, arr, ConstArr(ArrSort(SInt, l.sort), z)))
	}
	it := types.Typ[types.Int]
	return Val{K: KSlice, T: x.Type(), F: []Val{scalar(arr, it), scalar(IntLit(0), it), scalar(ln, it), scalar(cp, it)}}
}

func (fr *Frame) execSlice(x *ssa.Slice, st *State) Val {
	base := fr.val(x.X, st)
	it := types.Typ[types.Int]
	get := func(v ssa.Value, def *Term) *Term {
		if v == nil {
			return def
		}
		return fr.val(v, st).S
	}
	switch bt := x.X.Type().Underlying().(type) {
	case *types.Slice:
		arr, off, ln, cp := base.F[0].S, base.F[1].S, base.F[2].S, base.F[3].S
		lo := get(x.Low, IntLit(0))
		hi := get(x.High, ln)
		mx := get(x.Max, cp)
		fr.panicCheck("panic.slice", x, st, And(Le(IntLit(0), lo), Le(lo, hi), Le(hi, mx), Le(mx, cp)), "slice bounds out of range")
		return Val{K: KSlice, T: x.Type(), F: []Val{scalar(arr, it), scalar(Add(off, lo), it), scalar(Sub(hi, lo), it), scalar(Sub(mx, lo), it)}}
	case *types.Pointer:
		at := bt.Elem().Underlying().(*types.Array)
		n := IntLit(at.Len())
		lo := get(x.Low, IntLit(0))
		hi := get(x.High, n)
		mx := get(x.Max, n)
		fr.panicCheck("panic.slice", x, st, And(Le(IntLit(0), lo), Le(lo, hi), Le(hi, mx), Le(mx, n)), "slice bounds out of range")
		return Val{K: KSlice, T: x.Type(), F: []Val{scalar(base.S, it), scalar(lo, it), scalar(Sub(hi, lo), it), scalar(Sub(mx, lo), it)}}
	case *types.Basic: // string
		ln := Slen(base.S)
		lo := get(x.Low, IntLit(0))
		hi := get(x.High, ln)
		fr.panicCheck("panic.slice", x, st, And(Le(IntLit(0), lo), Le(lo, hi), Le(hi, ln)), "string slice bounds out of range")
		DeclareFun("ssub", []Sort{SStr, SInt, SInt}, SStr)
		r := App("ssub", SStr, base.S, lo, hi)
		st.assume(Eq(Slen(r), Sub(hi, lo)))
		return scalar(r, x.Type())
	}
	panic(outsideSubset{"Slice on " + x.X.Type().String()})
}

// ---- maps

type mapInfo struct {
	key    string
	kt, vt types.Type
	ks     Sort
	leaves []leaf
}

func mapInfoOf(t types.Type) mapInfo {
	mt := t.Underlying().(*types.Map)
	mi := mapInfo{key: mapKeyName(t), kt: mt.Key(), vt: mt.Elem(), ks: keySort(mt.Key())}
	if st, ok := mt.Elem().Underlying().(*types.Struct); ok && st.NumFields() == 0 {
		return mi
	}
	mi.leaves = shapeOf(mt.Elem())
	return mi
}

func (mi mapInfo) domH(st *State) *Term { return st.H(mi.key+".dom", ArrSort(SInt, ArrSort(mi.ks, SBool))) }
func (mi mapInfo) cardH(st *State) *Term { return st.H(mi.key+".card", ArrSort(SInt, SInt)) }
func (mi mapInfo) valH(st *State, l leaf) *Term {
	return st.H(mi.key+".val"+l.suffix, ArrSort(SInt, ArrSort(mi.ks, l.sort)))
}

func mapHas(st *State, mi mapInfo, m, k *Term) *Term {
	return And(Neq(m, IntLit(0)), Select(Select(mi.domH(st), m), k))
}

func mapGet(st *State, mi mapInfo, m, k *Term) Val {
	if len(mi.leaves) == 0 {
		return Val{K: KStruct, T: mi.vt}
	}
	has := mapHas(st, mi, m, k)
	ts := make([]*Term, len(mi.leaves))
	zs := flatten(zeroVal(mi.vt))
	for i, l := range mi.leaves {
		ts[i] = Ite(has, Select(Select(mi.valH(st, l), m), k), zs[i])
	}
	v := valFromLeaves(mi.vt, ts)
	st.assume(wellTyped(v, st))
	st.assumeAllocated(v)
	return v
}

func mapLen(st *State, mi mapInfo, m *Term) *Term {
	c := Select(mi.cardH(st), m)
	st.assume(Ge(c, IntLit(0)))
	return Ite(Eq(m, IntLit(0)), IntLit(0), c)
}

func mapSet(st *State, mi mapInfo, m, k *Term, v Val) {
	dom := mi.domH(st)
	had := Select(Select(dom, m), k)
	card := mi.cardH(st)
	st.assume(Ge(Select(card, m), IntLit(0)))
	st.assume(Implies(had, Ge(Select(card, m), IntLit(1))))
	st.setH(mi.key+".card", Store(card, m, Add(Select(card, m), Ite(had, IntLit(0), IntLit(1)))))
	st.setH(mi.key+".dom", Store(dom, m, Store(Select(dom, m), k, True)))
	if len(mi.leaves) > 0 {
		ts := flatten(coerce(v, mi.vt))
		for i, l := range mi.leaves {
			h := mi.valH(st, l)
			st.setH(mi.key+".val"+l.suffix, Store(h, m, Store(Select(h, m), k, ts[i])))
		}
	}
}

func mapDelete(st *State, mi mapInfo, m, k *Term) {
	dom := mi.domH(st)
	had := mapHas(st, mi, m, k)
	card := mi.cardH(st)
	st.assume(Ge(Select(card, m), IntLit(0)))
	st.assume(Implies(had, Ge(Select(card, m), IntLit(1))))
	// delete on a nil map is a no-op
	st.setH(mi.key+".card", Ite(Eq(m, IntLit(0)), card, Store(card, m, Sub(Select(card, m), Ite(had, IntLit(1), IntLit(0))))))
	st.setH(mi.key+".dom", Ite(Eq(m, IntLit(0)), dom, Store(dom, m, Store(Select(dom, m), k, False))))
}

func (fr *Frame) execMakeMap(x *ssa.MakeMap, st *State) Val {
	mi := mapInfoOf(x.Type())
	m := st.freshRef("map")
	st.assume(Eq(RefTag(m), tagOfStruct(x.Type()))) // a map object is not an object of any struct type
	st.setH(mi.key+".dom", Store(mi.domH(st), m, ConstArr(ArrSort(mi.ks, SBool), False)))
	st.setH(mi.key+".card", Store(mi.cardH(st), m, IntLit(0)))
	return scalar(m, x.Type())
}

// valueSourceName names the local or field an SSA value was loaded from ("" when unknown).
func valueSourceName(v ssa.Value) string {
	if u, ok := v.(*ssa.UnOp); ok && u.Op == token.MUL {
		switch a := u.X.(type) {
		case *ssa.Alloc:
			return a.Comment
		case *ssa.FieldAddr:
			return a.X.Type().Underlying().(*types.Pointer).Elem().Underlying().(*types.Struct).Field(a.Field).Name()
		case *ssa.Global:
			return a.Name()
		}
	}
	return ""
}

func (fr *Frame) execMapUpdate(x *ssa.MapUpdate, st *State) {
	m := fr.val(x.Map, st)
	k := fr.val(x.Key, st)
	v := fr.val(x.Value, st)
	if name := valueSourceName(x.Map); name != "" && fr.contract != nil {
		fr.hookVars = map[string]Val{"$key": k, "$value": v}
		fr.atHook("mapupdate", name, x, st)
		fr.hookVars = nil
	}
	fr.panicCheck("panic.mapnil", x, st, Neq(m.S, IntLit(0)), "assignment to entry in nil map")
	mapSet(st, mapInfoOf(x.Map.Type()), m.S, k.S, v)
}

func (fr *Frame) execLookup(x *ssa.Lookup, st *State) Val {
	base := fr.val(x.X, st)
	k := fr.val(x.Index, st)
	if _, isMap := x.X.Type().Underlying().(*types.Map); !isMap {
		// string index
		fr.panicCheck("panic.index", x, st, And(Ge(k.S, IntLit(0)), Lt(k.S, Slen(base.S))), "string index out of range")
		st.assume(inRange(Sat(base.S, k.S), x.Type())) // a byte of a string (by type)
		return scalar(Sat(base.S, k.S), x.Type())
	}
	mi := mapInfoOf(x.X.Type())
	v := mapGet(st, mi, base.S, k.S)
	if x.CommaOk {
		return Val{K: KTuple, T: x.Type(), F: []Val{v, scalar(mapHas(st, mi, base.S, k.S), types.Typ[types.Bool])}}
	}
	return v
}

func (fr *Frame) execRange(x *ssa.Range, st *State) Val {
	mt, ok := x.X.Type().Underlying().(*types.Map)
	if !ok {
		panic(outsideSubset{"range over " + x.X.Type().String()})
	}
	m := fr.val(x.X, st)
	it := &IterState{Map: m, MapT: mt, Site: x}
	// visited set lives in a synthetic cell so that loops havoc it and invariants can mention it
	cell := fr.iterCell(x)
	cellID(cell)
	st.cells[cell] = scalar(ConstArr(ArrSort(keySort(mt.Key()), SBool), False), nil)
	return Val{K: KIter, It: it}
}

var iterCells = map[*ssa.Range]*ssa.Alloc{}

func (fr *Frame) iterCell(x *ssa.Range) *ssa.Alloc {
	if c, ok := iterCells[x]; ok {
		return c
	}
	c := &ssa.Alloc{Comment: "$visited"}
	iterCells[x] = c
	n := 0
	for _, a := range fr.cellName {
		if a.Comment == "$visited" {
			n++
		}
	}
	name := "visited"
	if n > 0 {
		name = fmt.Sprintf("visited@%d", n+1)
	}
	fr.cellName[name] = c
	return c
}

func (fr *Frame) execNext(x *ssa.Next, st *State) Val {
	iv := fr.val(x.Iter, st)
	if iv.K != KIter {
		panic(outsideSubset{"next on non-map iterator"})
	}
	it := iv.It
	mi := mapInfoOf(it.Map.T)
	cell := fr.iterCell(it.Site)
	visited := st.cells[cell].S
	m := it.Map.S
	ok := Fresh("next_ok", SBool)
	k := Fresh("next_k", mi.ks)
	kv := scalar(k, it.MapT.Key())
	st.assume(wellTyped(kv, st))
	// ok: k is an unvisited member; !ok: every member is visited
	st.assume(Implies(ok, And(mapHas(st, mi, m, k), Not(Select(visited, k)))))
	q := Bound("q", mi.ks)
	st.assume(Implies(Not(ok), Forall([]*Term{q}, Implies(mapHas(st, mi, m, q), Select(visited, q)), []*Term{Select(Select(mi.domH(st), m), q)})))
	st.cells[cell] = scalar(Ite(ok, Store(visited, k, True), visited), nil)
	var v Val
	if len(mi.leaves) == 0 {
		v = Val{K: KStruct, T: mi.vt}
	} else {
		v = mapGet(st, mi, m, k)
	}
	return Val{K: KTuple, T: x.Type(), F: []Val{scalar(ok, types.Typ[types.Bool]), kv, v}}
}

func (fr *Frame) execPhi(x *ssa.Phi, st *State) Val {
	// only produced for && / || values; choose by the incoming edge conditions
	b := x.Block()
	es := fr.incoming[b]
	var out *Val
	for i := len(es) - 1; i >= 0; i-- {
		var pv Val
		for pi, p := range b.Preds {
			if p == es[i].from {
				pv = fr.val(x.Edges[pi], es[i].st)
			}
		}
		if out == nil {
			v := pv
			out = &v
		} else {
			_, ra, _ := splitCommon(es[i].st.pc, st.pc)
			_ = ra
			v := iteVal(es[i].st.pc, pv, *out)
			out = &v
		}
	}
	if out == nil {
		panic(outsideSubset{"phi without incoming edges"})
	}
	return *out
}

// ---- defers

func (fr *Frame) execRunDefers(x *ssa.RunDefers, st *State) {
	var ds []*ssa.Defer
	for _, b := range fr.fn.Blocks {
		for _, ins := range b.Instrs {
			if d, ok := ins.(*ssa.Defer); ok {
				ds = append(ds, d)
			}
		}
	}
	for i := len(ds) - 1; i >= 0; i-- {
		d := ds[i]
		flag, ok := st.cells[fr.deferCells[d]]
		if !ok || flag.S == False {
			continue
		}
		run := func(s *State) {
			fr.execCallCommon(d, &d.Call, s, func(v ssa.Value) Val {
				if r, ok := fr.regs[deferArg{d, v}]; ok {
					return r
				}
				return fr.val(v, s)
			})
		}
		if flag.S == True {
			run(st)
			continue
		}
		s1 := st.clone()
		s1.assume(flag.S)
		run(s1)
		s2 := st.clone()
		s2.assume(Not(flag.S))
		m := mergeStates([]edgeState{{nil, s1}, {nil, s2}})
		*st = *m
	}
}
