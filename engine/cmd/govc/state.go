package main

import (
	"fmt"
	"go/types"
	"sort"

	"golang.org/x/tools/go/ssa"
)

// State is one symbolic program state: path condition, local cells, heap arrays.
type State struct {
	pc    *Term
	cells map[*ssa.Alloc]Val
	heap  map[string]*Term
	sorts *heapSorts
}

// heapSorts remembers the sort of each heap key (shared by all states of a run).
type heapSorts struct {
	sort map[string]Sort
}

func newState() *State {
	return &State{pc: True, cells: map[*ssa.Alloc]Val{}, heap: map[string]*Term{}, sorts: &heapSorts{sort: map[string]Sort{}}}
}

func (s *State) clone() *State {
	n := &State{pc: s.pc, cells: make(map[*ssa.Alloc]Val, len(s.cells)), heap: make(map[string]*Term, len(s.heap)), sorts: s.sorts}
	for k, v := range s.cells {
		n.cells[k] = v
	}
	for k, v := range s.heap {
		n.heap[k] = v
	}
	return n
}

func (s *State) assume(t *Term) {
	if t.open {
		// facts about values read under a quantifier in a spec expression: keep the closed conjuncts only
		var keep []*Term
		for _, c := range conjuncts(t) {
			if !c.open {
				keep = append(keep, c)
			}
		}
		t = And(keep...)
	}
	s.pc = And(s.pc, t)
}

// H returns the current array for a heap key (initial symbol when untouched).
func (s *State) H(key string, sort Sort) *Term {
	if old, ok := s.sorts.sort[key]; ok {
		if old != sort {
			panic(fmt.Sprintf("heap key %s used at sorts %s and %s", key, old, sort))
		}
	} else {
		s.sorts.sort[key] = sort
	}
	if t, ok := s.heap[key]; ok {
		return t
	}
	return Sym("H0$"+key, sort)
}

func (s *State) setH(key string, t *Term) {
	if _, ok := s.sorts.sort[key]; !ok {
		s.sorts.sort[key] = t.sort
	}
	s.heap[key] = t
}

func initialH(key string, sort Sort) *Term { return Sym("H0$"+key, sort) }

// ---- allocation

const allocKey = "alloc"
const allocAKey = "allocA"

var allocSort = ArrSort(SInt, SBool)

func (s *State) freshRef(hint string) *Term {
	r := Fresh(hint, SInt)
	a := s.H(allocKey, allocSort)
	s.assume(And(Ge(r, IntLit(1)), Not(Select(a, r))))
	s.setH(allocKey, Store(a, r, True))
	return r
}

func (s *State) freshArr(hint string) *Term {
	r := Fresh(hint, SInt)
	a := s.H(allocAKey, allocSort)
	s.assume(And(Ge(r, IntLit(1)), Not(Select(a, r))))
	s.setH(allocAKey, Store(a, r, True))
	return r
}

// assumeAllocated records that a symbolic value read from memory / parameters only refers to allocated objects.
func (s *State) assumeAllocated(v Val) {
	switch v.K {
	case KScalar:
		if v.T != nil && isRefType(v.T) && v.S.sort == SInt && v.S.kind != 'c' {
			s.assume(Or(Eq(v.S, IntLit(0)), Select(s.H(allocKey, allocSort), v.S)))
			if f := refTagFact(v); f != True {
				s.assume(f)
			}
		}
		if v.T != nil && v.S.sort == SInt && v.S.kind != 'c' {
			if _, isArr := v.T.Underlying().(*types.Array); isArr {
				// an array value is an id into the element heap: an existing row, distinct from rows allocated later
				s.assume(Select(s.H(allocAKey, allocSort), v.S))
			}
		}
	case KSlice:
		if v.F[0].S.kind != 'c' {
			s.assume(Or(Eq(v.F[0].S, IntLit(0)), Select(s.H(allocAKey, allocSort), v.F[0].S)))
		}
	case KIface:
		if v.F[1].S.kind != 'c' {
			s.assume(Or(Le(v.F[1].S, IntLit(0)), Select(s.H(allocKey, allocSort), v.F[1].S)))
		}
	case KStruct, KTuple:
		for _, f := range v.F {
			s.assumeAllocated(f)
		}
	}
}

// ---- memory access

func (s *State) loadLeaf(a *Addr, l leaf) *Term {
	key := a.Key + l.suffix
	switch a.Kind {
	case AField:
		return Select(s.H(key, ArrSort(SInt, l.sort)), a.Ref)
	case AElem:
		return Select(Select(s.H(key, ArrSort(SInt, ArrSort(SInt, l.sort))), a.Arr), a.Idx)
	case AGlobal:
		return s.H(key, l.sort)
	}
	panic("loadLeaf on cell")
}

func (s *State) storeLeaf(a *Addr, l leaf, v *Term) {
	key := a.Key + l.suffix
	switch a.Kind {
	case AField:
		s.setH(key, Store(s.H(key, ArrSort(SInt, l.sort)), a.Ref, v))
	case AElem:
		h := s.H(key, ArrSort(SInt, ArrSort(SInt, l.sort)))
		s.setH(key, Store(h, a.Arr, Store(Select(h, a.Arr), a.Idx, v)))
	case AGlobal:
		s.setH(key, v)
	default:
		panic("storeLeaf on cell")
	}
}

func (s *State) load(a *Addr) Val {
	if a.Kind == ACell {
		v, ok := s.cells[a.Cell]
		if !ok {
			panic(outsideSubset{"load of uninitialised cell " + a.Cell.Comment})
		}
		return v
	}
	if a.Kind == AGlobal {
		if v, ok := sentinelVals[a.Key]; ok {
			return v
		}
	}
	ls := shapeOf(a.T)
	ts := make([]*Term, len(ls))
	for i, l := range ls {
		ts[i] = s.loadLeaf(a, l)
	}
	v := valFromLeaves(a.T, ts)
	s.assume(wellTyped(v, s))
	s.assumeAllocated(v)
	return v
}

func (s *State) store(a *Addr, v Val) {
	if a.Kind == ACell {
		cellID(a.Cell)
		s.cells[a.Cell] = v
		return
	}
	ls := shapeOf(a.T)
	ts := flatten(coerce(v, a.T))
	if len(ls) != len(ts) {
		panic(outsideSubset{fmt.Sprintf("store shape mismatch for %v: %d leaves vs %d", a.T, len(ls), len(ts))})
	}
	for i, l := range ls {
		s.storeLeaf(a, l, ts[i])
	}
}

// coerce adapts nil constants to the target type's shape.
func coerce(v Val, t types.Type) Val {
	if v.K == KScalar && v.S.kind == 'c' && v.S.op == "0" {
		switch t.Underlying().(type) {
		case *types.Slice, *types.Interface:
			return zeroVal(t)
		}
	}
	return v
}

// ---- state merging

type edgeState struct {
	from *ssa.BasicBlock
	st   *State
}

// mergeStates joins path states (pcs assumed mutually exclusive).
func mergeStates(es []edgeState) *State {
	if len(es) == 1 {
		return es[0].st
	}
	out := es[len(es)-1].st.clone()
	for i := len(es) - 2; i >= 0; i-- {
		a := es[i].st
		common, ra, rb := splitCommon(a.pc, out.pc)
		// selector of the merged values: the quantifier-free part of what distinguishes path a. Paths are
		// told apart by branch conditions (quantifier free); assumed callee postconditions and invariants
		// (quantified) only ride along, and as ite conditions they would be out of reach of e-matching
		// and of the pre-instantiation of hypotheses.
		c := qfPart(ra)
		if c == True {
			c = ra
		}
		// cells: keep those present in both
		for _, k := range sortedCells(out.cells) {
			bv := out.cells[k]
			av, ok := a.cells[k]
			if !ok {
				// not allocated on that path: the value is only ever read where the allocation
				// dominates, so keeping the other path's value is harmless (and keeps hints)
				continue
			}
			if !sameVal(av, bv) {
				out.cells[k] = iteVal(c, av, bv)
			}
		}
		for _, k := range sortedCells(a.cells) {
			if _, ok := out.cells[k]; !ok {
				out.cells[k] = a.cells[k]
			}
		}
		keys := map[string]bool{}
		for k := range out.heap {
			keys[k] = true
		}
		for k := range a.heap {
			keys[k] = true
		}
		var ks []string
		for k := range keys {
			ks = append(ks, k)
		}
		sort.Strings(ks)
		for _, k := range ks {
			srt := out.sorts.sort[k]
			at, bt := a.H(k, srt), out.H(k, srt)
			if at != bt {
				out.heap[k] = Ite(c, at, bt)
			}
		}
		out.pc = And(common, Or(ra, rb))
	}
	return out
}

// qfPart weakens a formula built from and / or by replacing every quantified conjunct or disjunct by true.
func qfPart(t *Term) *Term {
	if !hasQuant(t) {
		return t
	}
	if t.kind == 'a' && (t.op == "and" || t.op == "or") {
		args := make([]*Term, len(t.args))
		for i, a := range t.args {
			args[i] = qfPart(a)
		}
		if t.op == "and" {
			return And(args...)
		}
		return Or(args...)
	}
	return True
}

// cell identities in first-use order, so that every iteration over cells is deterministic
var cellIDs = map[*ssa.Alloc]int{}

func cellID(c *ssa.Alloc) int {
	if id, ok := cellIDs[c]; ok {
		return id
	}
	cellIDs[c] = len(cellIDs) + 1
	return cellIDs[c]
}

func sortedCells(m map[*ssa.Alloc]Val) []*ssa.Alloc {
	out := make([]*ssa.Alloc, 0, len(m))
	for k := range m {
		out = append(out, k)
	}
	sort.Slice(out, func(i, j int) bool { return cellIDs[out[i]] < cellIDs[out[j]] })
	return out
}

func conjuncts(t *Term) []*Term {
	if t.kind == 'a' && t.op == "and" {
		return t.args
	}
	if t == True {
		return nil
	}
	return []*Term{t}
}

// splitCommon factors the shared conjuncts out of two path conditions.
func splitCommon(a, b *Term) (common, ra, rb *Term) {
	ca, cb := conjuncts(a), conjuncts(b)
	inB := map[int]bool{}
	for _, x := range cb {
		inB[x.id] = true
	}
	var com, restA, restB []*Term
	isCom := map[int]bool{}
	for _, x := range ca {
		if inB[x.id] {
			com = append(com, x)
			isCom[x.id] = true
		} else {
			restA = append(restA, x)
		}
	}
	for _, x := range cb {
		if !isCom[x.id] {
			restB = append(restB, x)
		}
	}
	return And(com...), And(restA...), And(restB...)
}
