package main

// Engine self-test: a corpus of tiny functions whose verdict is known (selftest/repo).
// Good* must verify completely, Bad* must have at least one undischarged obligation
// (BadVacuous: a contradictory-premises canary). Guards the generator against unsound changes.

import (
	"fmt"
	"os"
	"path/filepath"
	"sort"
	"strings"
)

func runSelftest() int {
	dir := filepath.Join(verifDir(), "selftest", "repo")
	os.Setenv("GOVC_PATTERNS", ".")
	e, err := LoadEngine(dir)
	if err != nil {
		fmt.Println("selftest: cannot load corpus:", err)
		return 2
	}
	e.scratch, _ = os.MkdirTemp("", "govc-selftest")
	defer os.RemoveAll(e.scratch)
	names := matchFuncs(e, ".")
	sort.Strings(names)
	bad := 0
	type res struct {
		failing, vacuous int
		err            error
		total          int
	}
	results := map[string]*res{}
	var all, canaries []*Oblig
	owner := map[*Oblig]string{}
	for _, n := range names {
		short := shortName(n)
		r := &res{}
		results[short] = r
		run, err := e.Verify(n)
		if err != nil {
			r.err = err
			continue
		}
		for _, o := range run.obligs {
			owner[o] = short
		}
		for _, o := range run.canaries {
			owner[o] = short
		}
		all = append(all, run.obligs...)
		canaries = append(canaries, run.canaries...)
		r.total = len(run.obligs)
	}
	e.Discharge(all, 10, nil)
	for _, o := range all {
		if o.Result.Status != "unsat" {
			results[owner[o]].failing++
		}
	}
	for _, o := range e.DischargeCanaries(canaries, 5) {
		results[owner[o]].vacuous++
	}
	var keys []string
	for k := range results {
		keys = append(keys, k)
	}
	sort.Strings(keys)
	checked := 0
	for _, k := range keys {
		r := results[k]
		base := k[strings.LastIndex(k, ".")+1:]
		switch {
		case strings.HasPrefix(base, "Good"):
			checked++
			if r.err != nil || r.failing > 0 || r.vacuous > 0 || r.total == 0 {
				fmt.Printf("SELFTEST-FAIL %s: expected to verify, got err=%v failing=%d vacuous=%d obligations=%d\n", k, r.err, r.failing, r.vacuous, r.total)
				bad++
			}
		case strings.HasPrefix(base, "Bad"):
			checked++
			if r.err == nil && r.failing == 0 && r.vacuous == 0 {
				fmt.Printf("SELFTEST-FAIL %s: expected a failing obligation, but all %d were discharged (unsound generator?)\n", k, r.total)
				bad++
			}
			if r.err != nil {
				fmt.Printf("SELFTEST-FAIL %s: engine error instead of a failing obligation: %v\n", k, r.err)
				bad++
			}
		}
	}
	fmt.Printf("selftest: %d corpus functions checked, %d unexpected verdicts\n", checked, bad)
	if bad > 0 {
		return 1
	}
	return 0
}
