package main

// Engine self-test: a corpus of tiny functions whose verdict is known (selftest/repo).
// Good* must verify completely, Bad* must have at least one undischarged obligation
// (BadVacuous: a contradictory-premises canary). Guards the generator against unsound changes.

import (
	"fmt"
	"os"
	"path/filepath"
	"sort"
	"strings"
)

func runSelftest() int {
	dir := filepath.Join(verifDir(), "selftest", "repo")
	os.Setenv("GOVC_PATTERNS", ".")
	e, err := LoadEngine(dir)
	if err != nil {
		fmt.Println("selftest: cannot load corpus:", err)
		return 2
	}
	e.scratch, _ = os.MkdirTemp("", "govc-selftest")
	defer os.RemoveAll(e.scratch)
	names := matchFuncs(e, ".")
	sort.Strings(names)
	bad := 0
	type res struct {
		failing, vacuous int
		err            error
		total          int
	}
	results := map[string]*res{}
	var all, canaries []*Oblig
	owner := map[*Oblig]string{}
	for _, n := range names {
		short := shortName(n)
		r := &res{}
		results[short] = r
		run, err := e.Verify(n)
		if err != nil {
			r.err = err
			continue
		}
		for _, o := range run.obligs {
			owner[o] = short
		}
		for _, o := range run.canaries {
			owner[o] = short
		}
		all = append(all, run.obligs...)
		canaries = append(canaries, run.canaries...)
		r.total = len(run.obligs)
	}
	e.Discharge(all, 10, nil)
	for _, o := range all {
		if o.Result.Status != "unsat" {
			results[owner[o]].failing++
		}
	}
	for _, o := range e.DischargeCanaries(canaries, 5) {
		results[owner[o]].vacuous++
	}
	var keys []string
	for k := range results {
		keys = append(keys, k)
	}
	sort.Strings(keys)
	checked := 0
	for _, k := range keys {
		r := results[k]
		base := k[strings.LastIndex(k, ".")+1:]
		switch {
		case strings.HasPrefix(base, "Good"):
			checked++
			if r.err != nil || r.failing > 0 || r.vacuous > 0 || r.total == 0 {
				fmt.Printf("SELFTEST-FAIL %s: expected to verify, got err=%v failing=%d vacuous=%d obligations=%d\n", k, r.err, r.failing, r.vacuous, r.total)
				bad++
			}
		case strings.HasPrefix(base, "Bad"):
			checked++
			if r.err == nil && r.failing == 0 && r.vacuous == 0 {
				fmt.Printf("SELFTEST-FAIL %s: expected a failing obligation, but all %d were discharged (unsound generator?)\n", k, r.total)
				bad++
			}
			if r.err != nil {
				fmt.Printf("SELFTEST-FAIL %s: engine error instead of a failing obligation: %v\n", k, r.err)
				bad++
			}
		}
	}
	// background theory sanity: the axioms together with adversarial ground terms must not be refutable
	seen := map[string]bool{"slen": true, "byteOf": true, "le2": true, "le4": true, "le8": true, "crcUpd": true}
	pre, _ := strPrelude(seen)
	seeds := `(declare-const a (Array Int Int))
(declare-const s Str)
(declare-const t Str)
(assert (= (select a 0) 1000))
(assert (= (select a 1) (- 5)))
(assert (>= (sat (absB a 0 2) 0) (sat (absB a 0 2) 1)))
(assert (= (slen (sconcat s t)) (slen (sconcat t s))))
(assert (distinct (crcUpd (crcUpd 7 s) t) (- 1)))
(assert (>= (le4 300 (- 1) 0 5) 0))
(assert (>= (byteOf (le2 300 4) 0) 0))
(assert (= (le8 (byteOf 70000 0) (byteOf 70000 1) (byteOf 70000 2) (byteOf 70000 3) (byteOf 70000 4) (byteOf 70000 5) (byteOf 70000 6) (byteOf 70000 7)) 70000))
(assert (streq (absB a 0 0) sempty))
(assert (not (streq (absB (store a 5 1) 0 2) (absB a 0 1))))
`
	script := "(set-logic ALL)\n(declare-sort Str 0)\n" + dtPrelude + pre + seeds + "(check-sat)\n"
	r := Solve(script, true, 10, e.scratch, "axiom-sanity")
	if r.Status == "unsat" {
		fmt.Printf("SELFTEST-FAIL background axioms are refutable (%s): the theory is inconsistent\n", r.Backend)
		bad++
	} else {
		fmt.Printf("selftest: background axioms not refuted (%s, %v)\n", r.Status, r.All)
	}
	fmt.Printf("selftest: %d corpus functions checked, %d unexpected verdicts\n", checked, bad)
	if bad > 0 {
		return 1
	}
	return 0
}
