package main

import (
	"flag"
	"fmt"
	"os"
	"sort"
	"strings"
)

func usage() {
	fmt.Fprintln(os.Stderr, `usage:
  govc verify [-t secs] [-keep] <regexp>      verify contracted functions whose name matches (development)
  govc dump <Recv.Name|Name>                    print the SSA of a function
  govc check <property> <quick|thorough>        run a property check (writes evidence)
  govc list                                     list contracted functions`)
	os.Exit(2)
}

func main() {
	if len(os.Args) < 2 {
		usage()
	}
	repo := os.Getenv("GOVC_REPO")
	if repo == "" {
		repo = "/repo"
	}
	switch os.Args[1] {
	case "dump":
		e, err := LoadEngine(repo)
		die(err)
		for k, f := range e.funcs {
			if shortName(k) == os.Args[2] || strings.HasSuffix(k, "."+os.Args[2]) {
				f.WriteTo(os.Stdout)
			}
		}
	case "list":
		e, err := LoadEngine(repo)
		die(err)
		for _, k := range e.contracts.Order {
			fmt.Println(shortName(k), e.contracts.Funcs[k].Tags)
		}
	case "verify":
		fs := flag.NewFlagSet("verify", flag.ExitOnError)
		to := fs.Int("t", 10, "solver timeout (s)")
		keep := fs.Bool("keep", false, "keep smt files")
		verbose := fs.Bool("v", false, "show every obligation")
		changed := fs.String("changed", "", "file:line,... (relative to the repository): verify only the contracted functions an edit at these lines can affect")
		fs.Parse(os.Args[2:])
		if *keep {
			os.Setenv("GOVC_KEEP", "1")
		}
		e, err := LoadEngine(repo)
		die(err)
		e.scratch, _ = os.MkdirTemp("", "govc")
		fmt.Printf("loaded in %.1fs; scratch %s\n", e.loadTime, e.scratch)
		names := matchFuncs(e, fs.Arg(0))
		if *changed != "" {
			aff, unowned := affectedFuncs(e, parseChanged(*changed))
			if unowned == 0 {
				names = aff
			}
			fmt.Printf("affected: %d functions (%d changed lines outside function bodies)\n", len(names), unowned)
		}
		sort.Strings(names)
		var all, canaries []*Oblig
		for _, n := range names {
			run, err := e.Verify(n)
			if err != nil {
				fmt.Printf("ERROR %v\n", err)
				continue
			}
			all = append(all, run.obligs...)
			canaries = append(canaries, run.canaries...)
			for _, nt := range run.notes {
				fmt.Printf("  note[%s]: %s\n", run.name, nt)
			}
		}
		stats := &DischargeStats{ByBackend: map[string]int{}}
		e.Discharge(all, *to, stats)
		ok, bad := 0, 0
		for _, o := range all {
			if o.Result.Status == "unsat" {
				ok++
				if *verbose {
					fmt.Printf("  ok   %-60s %s %.2fs\n", o.Name, o.Result.Backend, o.Result.Time)
				}
			} else {
				bad++
				fmt.Printf("  FAIL %-60s tags=%v %s %v  [%s] %s\n", o.Name, o.Tags, o.Result.Status, o.Result.All, o.Pos, o.Text)
				if o.Result.Status == "sat" {
					fmt.Printf("       model: %s\n", compactModel(o.Result.Output))
				}
				if o.Candidate != nil {
					fmt.Printf("       candidate: %s\n", compactModel(o.Candidate.Output))
				}
				if o.Result.Status == "error" {
					fmt.Printf("       %s\n", firstLines(o.Result.Output, 3))
				}
			}
		}
		vac := e.DischargeCanaries(canaries, 3)
		for _, o := range vac {
			fmt.Printf("  VACUOUS %s: %s\n", o.Name, o.Text)
		}
		fmt.Printf("%d canaries, %d vacuous\n", len(canaries), len(vac))
		fmt.Printf("%d obligations: %d discharged, %d not; backends %v; solver time %.1fs\n", len(all), ok, bad, stats.ByBackend, stats.Time)
		if !*keep {
			os.RemoveAll(e.scratch)
		}
	case "sites":
		// list the anchor ordinals (loops, ifs, returns) of a function
		e, err := LoadEngine(repo)
		die(err)
		for k, f := range e.funcs {
			if shortName(k) == os.Args[2] || strings.HasSuffix(k, "."+os.Args[2]) {
				run := &FuncRun{eng: e, fn: f, name: shortName(k)}
				fr := newFrame(run, f, 0, "", nil)
				fmt.Println(shortName(k))
				for _, li := range fr.loopList {
					fmt.Printf("  loop %d at %s\n", li.ordinal, posString(e.prog, loopPos(li)))
				}
				type ent struct {
					n   int
					pos string
					txt string
				}
				var ifs, rets []ent
				for ins, n := range fr.ifOrd {
					ifs = append(ifs, ent{n, posString(e.prog, condPos(ins.Cond)), ins.Cond.String()})
				}
				for ins, n := range fr.ordinals["return"] {
					rets = append(rets, ent{n, posString(e.prog, ins.Pos()), ""})
				}
				sort.Slice(ifs, func(i, j int) bool { return ifs[i].n < ifs[j].n })
				sort.Slice(rets, func(i, j int) bool { return rets[i].n < rets[j].n })
				for _, x := range ifs {
					fmt.Printf("  branch %d at %s  (%s)\n", x.n, x.pos, x.txt)
				}
				for _, x := range rets {
					fmt.Printf("  return #%d at %s\n", x.n, x.pos)
				}
			}
		}
	case "selftest":
		os.Exit(runSelftest())
	case "check":
		if len(os.Args) < 4 {
			usage()
		}
		os.Exit(runCheck(repo, os.Args[2], os.Args[3], os.Args[4:]))
	default:
		usage()
	}
}

func die(err error) {
	if err != nil {
		fmt.Fprintln(os.Stderr, "govc:", err)
		os.Exit(3)
	}
}

func firstLines(s string, n int) string {
	ls := strings.Split(s, "\n")
	if len(ls) > n {
		ls = ls[:n]
	}
	return strings.Join(ls, " | ")
}

func compactModel(out string) string {
	i := strings.Index(out, "\n")
	if i < 0 {
		return ""
	}
	s := strings.Join(strings.Fields(out[i+1:]), " ")
	if len(s) > 600 {
		s = s[:600] + "…"
	}
	return s
}

