package main

// Allocation effects: which struct types of the module a function can allocate, transitively.
//
// A contract call replaces the callee by its contract, and the callee may allocate. Invariants of the
// form `forall n *T :: allocated(n) ==> ...` survive such a call only if the caller knows that the
// callee allocates no T objects (or is told which ones, by an `ensures onlyNew(...)`-style clause).
// The set is read off the real code of the callee: heap allocations of struct types in its body and,
// through static calls, in the bodies of the module functions it can reach. Interface method calls
// and calls through function values make the set unknown (nil = any type). Dependencies outside the
// module cannot allocate objects of the module's types.

import (
	"go/types"
	"sort"

	"golang.org/x/tools/go/ssa"
)

type allocSet map[string]types.Type // typeKey -> struct type; nil set = unknown (any)

func (e *Engine) allocTypes(fn *ssa.Function) allocSet {
	if e.allocCache == nil {
		e.allocCache = map[*ssa.Function]allocSet{}
		e.allocKnown = map[*ssa.Function]bool{}
	}
	if e.allocKnown[fn] {
		return e.allocCache[fn]
	}
	out := allocSet{}
	unknown := false
	seen := map[*ssa.Function]bool{}
	var walk func(f *ssa.Function)
	walk = func(f *ssa.Function) {
		if f == nil || seen[f] || unknown {
			return
		}
		seen[f] = true
		if !e.inModule(f) {
			return // a dependency: foreign allocations only
		}
		if len(f.Blocks) == 0 {
			unknown = true // no body (assembly / external linkage)
			return
		}
		for _, b := range f.Blocks {
			for _, ins := range b.Instrs {
				switch x := ins.(type) {
				case *ssa.Alloc:
					// local variables in naive form are Allocs too; counting them over-approximates
					et := x.Type().(*types.Pointer).Elem()
					if isModuleStruct(et) {
						out[typeKey(et)] = et
					}
				case *ssa.Call:
					if x.Call.IsInvoke() {
						// interface method: every module method of that name may be the target (implementations
						// outside the module cannot allocate module types)
						for _, cand := range e.funcs {
							if cand.Name() == x.Call.Method.Name() && cand.Signature.Recv() != nil {
								walk(cand)
							}
						}
						continue
					}
					if cal := x.Call.StaticCallee(); cal != nil {
						walk(cal)
					} else if _, isBuiltin := x.Call.Value.(*ssa.Builtin); !isBuiltin {
						unknown = true
						return
					}
				case *ssa.Defer:
					if x.Call.IsInvoke() {
						// deferred interface method: same candidates as for a direct interface call
						for _, cand := range e.funcs {
							if cand.Name() == x.Call.Method.Name() && cand.Signature.Recv() != nil {
								walk(cand)
							}
						}
						continue
					}
					if cal := x.Call.StaticCallee(); cal != nil {
						walk(cal)
					} else if _, isBuiltin := x.Call.Value.(*ssa.Builtin); !isBuiltin {
						unknown = true
						return
					}
				case *ssa.Go:
					unknown = true
					return
				case *ssa.MakeClosure:
					if cf, ok := x.Fn.(*ssa.Function); ok {
						walk(cf)
					}
				}
			}
		}
	}
	walk(fn)
	e.allocKnown[fn] = true
	if unknown {
		e.allocCache[fn] = nil
		return nil
	}
	e.allocCache[fn] = out
	return out
}

// allocTypesByMethod: union of the allocation effects of every module method with this name (the
// possible targets of an interface method call); nil when one of them is unknown.
func (e *Engine) allocTypesByMethod(name string) allocSet {
	out := allocSet{}
	var keys []string
	for k := range e.funcs {
		keys = append(keys, k)
	}
	sort.Strings(keys)
	for _, k := range keys {
		f := e.funcs[k]
		if f.Name() != name || f.Signature.Recv() == nil || !e.inModule(f) {
			continue
		}
		s := e.allocTypes(f)
		if s == nil {
			return nil
		}
		for tk, t := range s {
			out[tk] = t
		}
	}
	return out
}

// allocTagFact: every reference allocated between the maps old and nw has a tag of the set, or a
// tag outside the module's range.
func allocTagFact(old, nw *Term, set allocSet) *Term {
	q := Bound("r", SInt)
	alts := []*Term{Ge(RefTag(q), IntLit(2000000))}
	var keys []string
	for k := range set {
		keys = append(keys, k)
	}
	sort.Strings(keys)
	for _, k := range keys {
		alts = append(alts, Eq(RefTag(q), tagOfStruct(set[k])))
	}
	return Forall([]*Term{q}, Implies(And(Select(nw, q), Not(Select(old, q))), Or(alts...)), []*Term{Select(nw, q)})
}
