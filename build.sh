#!/bin/sh
cd /verif/engine && GOFLAGS=-mod=mod GOPROXY=off GOSUMDB=off GOTOOLCHAIN=local go build -o /verif/bin/govc ./cmd/govc
