#!/usr/bin/env python3
# Regenerates MANIFEST.json and properties-config.json from the table below (kept in one place).
import json, subprocess
props = {json.loads(l)['id']: json.loads(l) for l in open('/verif/properties.jsonl')}

ASSUME = ("Trusted base: go/ssa lowering (x/tools v0.29.0, naive form) of /repo's working tree, the govc VC generator, z3 4.8.12 / 5.1.0 / cvc5 1.0.3; "
          "sequential semantics only; slice/string lengths < 2^31; integer arithmetic is mathematical except in functions whose contract says `safety overflow`; "
          "dependency functions (encoding/binary little-endian, hash/crc32, bytes, errors, time, os.File, strings, strconv2, sort) are replaced by assumed contracts listed in the evidence file. ")

CLAIMS = {
 # id: (level, text, note(unverified), technique, config)
 "C06": ("proof",
   "Every function of ds/set (New, SAdd, SRem, SHasKey, SCard, SIsMember, SAreMembers, SMembers, SDiff, SInter, SUnion, SPop, SMove, checkKey1AndKey2) is proved against the mathematical-set model for all keys, items and set contents: membership after SAdd/SRem is exactly old plus/minus the given items, other keys and other sets are untouched (frames), the list-returning queries return exactly the members (sound, complete, without duplicates; loop invariants over the map iteration), SPop returns a former member that is then removed, and no call panics.",
   "Not yet under contract: the transactional layer tx_set.go (in particular the SMove* methods that bypass the log) and the two appliers; SRem refuses an empty item although SAdd accepts it (a weakness of the pinned tree, recorded when the Tx layer is added).",
   "contract-based deductive verification (weakest-precondition VCs over go/ssa, z3/cvc5)",
   {}),

 "C08": ("proof",
   "Mechanism-level proof of the replay that makes a reopen reproduce the state: getMaxFileIDAndFileIDs returns the segment ids sorted ascending with the maximum last; parseDataFiles appends one record per entry read, in file/offset order, whose hint carries the file id, the offset that was read, the entry's own metadata and key (and the entry itself in key-value mode) and records a transaction id as committed only for entries with status Committed; buildHintIdx applies a record if and only if its transaction id is in that set (branch condition proved equivalent, and every applier call site asserted); setActiveFile stamps the active file with MaxFileID.",
   "Not decided: equivalence of the commit-time and open-time appliers for set/list/sorted-set records (appliers are assumed contracts here), so 'operations that were no-ops at commit time' and SMove are not covered; B+ tree insertion is an assumed contract (bounded stand-in pending).",
   "contract-based deductive verification (weakest-precondition VCs over go/ssa, z3/cvc5)",
   {}),
 "C09": ("proof",
   "Proved on the real scan loops: getActiveFileWriteOff keeps ActualSize equal to the offset reached (loop invariant) and stops at a nil entry or io.EOF; parseDataFiles treats a read error at or beyond SegmentSize as the end of the segment (branch condition implied by off >= SegmentSize), never dereferences a missing entry, and every decoded entry it keeps went through DataFile.ReadAt's CRC contract (C21); Open's builders are panic-free under the stated preconditions.",
   "Not decided (known weaknesses of the pinned tree, not expressible with the current file model): an exactly full *active* MMap segment (ErrIndexOutOfBound instead of io.EOF in getActiveFileWriteOff), a torn last record (ErrCrc aborts Open), ReadBucketMeta creating an empty .meta file on a read path, replay errors of set/list appliers. These need a ghost file-content model for RWManager.ReadAt; until then C09 is a partial claim.",
   "contract-based deductive verification (weakest-precondition VCs over go/ssa, z3/cvc5)",
   {}),
 "C19": ("proof",
   "The places where storage options could change results are under contract: one interface contract for both RWManager implementations is what DataFile.ReadAt / Commit rely on; the hint stored at commit time and at open time is proved to be (file id, offset of the bytes written / read) so that key-only mode reads the bytes key-value mode keeps in RAM; setActiveFile stamps the reopened active file with its id; IsExpired is mode independent and proved equal to the mathematical definition for all 64-bit values; the end-of-segment test of the loader covers the MMap error at an exactly full sealed segment.",
   "Not decided: that MMapRWManager / FileIORWManager satisfy the interface contract (their bodies are not yet verified - the MMap short read is a known weakness), sparse mode vs RAM modes (C02), SyncEnable (C11).",
   "contract-based deductive verification (weakest-precondition VCs over go/ssa, z3/cvc5)",
   {}),
 "C01": ("proof",
   "Currently only the expiry rule and the hint discipline are decided: IsExpired(ttl, timestamp) is proved equal to !(ttl == 0 || now < timestamp + ttl) over mathematical integers for every ttl, timestamp and clock value, with no overflow (after the recorded fix); Commit is proved to index every key/value record under the offset and file at which its bytes were just written.",
   "Not yet under contract: Tx.Get and the scan wrappers (committed/tombstone/expiry filtering), and the B+ tree (ordered-map behaviour needs the bounded stand-in BS1). The claim is therefore partial.",
   "contract-based deductive verification (weakest-precondition VCs over go/ssa, z3/cvc5)",
   {}),

 "C22": ("proof",
   "DB.checkEntryIdxMode is proved (loop invariants over the directory listing, both directions) to return an error exactly when the directory holds data files together with / without the sparse-index directory in the wrong mode, for every listing; Open is proved to return that error before any further file-system mutation (at most the idempotent MkdirAll of the root precedes it) and never to succeed on a mismatching directory.",
   "Not decided: that sparse directories always contain bpt/ and RAM directories never do (frame over the path helpers), directories left by a crash between MkdirAlls, and 'same contents' when switching between the two RAM modes (that is C19/C08). ioutil.ReadDir, path.Ext/Base, os.MkdirAll and filesystem.PathIsExist are assumed contracts; DB.buildIndexes is an assumed contract (it runs only after the check).",
   "contract-based deductive verification (weakest-precondition VCs over go/ssa, z3/cvc5)",
   {}),
 "C10": ("proof",
   "Mechanism-level proof on the real write path: Tx.put buffers a well-formed entry stamped with the transaction id and status UnCommitted and preserves the Tx invariant; Tx.Commit (loop invariant over all pending entries) writes every entry at writeOff == ActualSize inside the segment, marks exactly the last one Committed, advances the offsets only after a successful write (and sync), and rotateActiveFile installs a fresh empty active file; on every error return after a failed write the offsets still point at the failed record, so no hole or half-counted record precedes later commits.",
   "Not decided here: the recovery side (parseDataFiles / buildHintIdx committed-id filter) and the crash lemma over a ghost log are not yet under contract; transaction-id uniqueness (snowflake node per transaction) is a known weakness not modelled; the OS appending what WriteAt was given is assumed (interface contract RWManager.WriteAt/Sync/Close, NewDataFile assumed).",
   "contract-based deductive verification (weakest-precondition VCs over go/ssa, z3/cvc5)",
   {}),
 "C11": ("proof",
   "Typestate proof with ghost counter `unsynced` (file writes not yet followed by a successful Sync): with SyncEnable the loop invariant of Tx.Commit shows unsynced == 0 before every record write and at the successful return, and Tx.rotateActiveFile preserves it; so the durable image is always a prefix of whole records ending, after Commit returns, with the commit marker.",
   "Assumed: fsync/msync persist data and the directory entry; the sparse-mode index writers (WriteNodes, Persistence, buildTxIDRootIdx, buildBucketMetaIdx) have assumed contracts ('sync when SyncEnable') - their bodies are not yet verified; recovery succeeding on that image is C09/C10.",
   "contract-based deductive verification (ghost typestate), z3/cvc5",
   {}),
 "C12": ("proof",
   "Tx.put is proved to refuse (and leave pendingWrites untouched) on a closed or read-only transaction and on an empty key; Tx.Commit is proved, at every one of its nine return statements, to leave lock state and tx.db untouched on failure, not to rotate before rejecting an oversized first entry, and to keep KeyCount; the obligation 'a failed Commit has not touched the in-memory indexes' fails at six return statements - a genuine defect of the pinned tree, listed in known-findings.json by obligation name.",
   "Not yet under contract: Rollback, DB.managed, the frames of the exported Tx API methods (SMove* in particular). After-reopen effects of a failed commit rest on C10.",
   "contract-based deductive verification (weakest-precondition VCs over go/ssa, z3/cvc5)",
   {}),

 "C21": ("proof",
   "Every obligation generated from the contracts on the real encode/decode functions (Entry.Encode/Size/GetCrc/IsZero, readMetaData, DataFile.ReadAt, BPTreeRootIdx.*, ReadBPTreeRootIdxAt, BucketMeta.*, ReadBucketMeta) is discharged by an SMT solver for all field values and lengths: the encoders produce the stated byte layout and CRC, and a decoder returns a record only when its CRC field equals the CRC of the stored header bytes and the returned bucket/key/value, with every returned field decoded from those bytes. No panic for any input.",
   "Not decided: that CRC-32 detects a given corruption (property of the polynomial, assumed); the composition encode->write->read as one lemma (both sides are proved against the same format predicate); B+ tree node files (encoding/binary reflection). MMap short reads are a C19 matter.",
   "contract-based deductive verification (weakest-precondition VCs over go/ssa, z3/cvc5)",
   {}),
 "C05": ("proof",
   "Contracts on the real ds/list functions (New, Size, LPeek, RPeek, LRange, LPop, RPop, LSet, Ltrim, RPush) state the Redis-list model pointwise (negative-index normalisation, clamping, element-wise content, other keys untouched, frame) and every generated obligation - postconditions, loop invariants, frames, absence of panics and of index-arithmetic overflow - is discharged for all lists, keys, values and indexes; failing obligations that are genuine defects of the pinned tree are listed in known-findings.json.",
   "Not yet under contract (so not decided): LPush, LRem/LRemNum, the transactional layer tx_list.go and the list branches of the two appliers; '|' in values therefore undecided.",
   "contract-based deductive verification (weakest-precondition VCs over go/ssa, z3/cvc5)",
   {}),
}
NA_REASON = {
 "C16": "needs an inductive refinement invariant over intermediate multi-file directory states at every crash point of Merge; no per-function contract expresses it; the write-before-remove ordering it rests on is checked under C15",
}
checks, na, cfg = [], [], {}
for pid in sorted(props):
    if pid in CLAIMS:
        level, text, note, tech, c = CLAIMS[pid]
        checks.append({"property_id": pid, "quick_cmd": f"./check {pid} quick", "thorough_cmd": f"./check {pid} thorough",
            "evidence_file": f"/verif/evidence/{pid}.json", "replay_cmd_template": f"./check {pid} --replay {{path}}", "engine": "govc",
            "level_claimed": {"category": level, "text": text, "design_ref": f"DESIGN.md §6 {pid}"},
            "level_note": ASSUME + note, "technique": tech})
        c = dict(c); c.setdefault("level", level); cfg[pid] = c
    else:
        na.append({"property_id": pid, "reason": NA_REASON.get(pid, "contracts designed (DESIGN §6) but not built yet — unclaimed")})
hooks = subprocess.run(["git","-C","/repo","log","--format=%H","--grep=^verif:"],capture_output=True,text=True).stdout.split()
m = {"version": 1, "setup_cmd": "./setup.sh",
 "hooks": {"guard": "verif", "enable": "-tags verif (comment-only contract files verif_contracts*.go; read by govc, never compiled into the library)",
           "baseline_off_cmd": "cd /repo && GOFLAGS=-mod=mod GOPROXY=off GOSUMDB=off go test -vet=off -count=1 ./...",
           "source_commits": hooks, "add_only": True},
 "engines": [{"name": "govc", "path": "engine", "serves_properties": sorted(CLAIMS),
              "kind_free_text": "VC generator over go/ssa (naive form) of /repo's working tree + Gobra-style contracts in verif-tagged comment-only files; obligations discharged by z3 4.8.12 / z3 5.1.0 / cvc5 1.0.3"}],
 "checks": checks, "not_applicable": na,
 "notes": "Every check prints KNOWN-FINDING lines for listed genuine defects (known-findings.json) and exits 0 on the unchanged tree; UNDECIDED lines report contracts that no longer match the code."}
json.dump(m, open('/verif/MANIFEST.json','w'), indent=1)
json.dump(cfg, open('/verif/properties-config.json','w'), indent=1)
print("claimed:", sorted(CLAIMS))
