#!/usr/bin/env python3
# Regenerates MANIFEST.json and properties-config.json from the table below (kept in one place).
import json, subprocess
props = {json.loads(l)['id']: json.loads(l) for l in open('/verif/properties.jsonl')}

ASSUME = ("Trusted base: go/ssa lowering (x/tools v0.29.0, naive form) of /repo's working tree, the govc VC generator, z3 4.8.12 / 5.1.0 / cvc5 1.0.3; "
          "sequential semantics only; slice/string lengths < 2^31; integer arithmetic is mathematical except in functions whose contract says `safety overflow`; "
          "dependency functions (encoding/binary little-endian, hash/crc32, bytes, errors, time, os.File, strings, strconv2, sort) are replaced by assumed contracts listed in the evidence file. ")

CLAIMS = {k: (v["level"], v["text"], v["note"], v["technique"], v.get("config", {})) for k, v in json.load(open("/verif/claims.json")).items()}
NA_REASON = {
 "C16": "needs an inductive refinement invariant over intermediate multi-file directory states at every crash point of Merge; no per-function contract expresses it; the write-before-remove ordering it rests on is checked under C15",
}
checks, na, cfg = [], [], {}
for pid in sorted(props):
    if pid in CLAIMS:
        level, text, note, tech, c = CLAIMS[pid]
        checks.append({"property_id": pid, "quick_cmd": f"./check {pid} quick", "thorough_cmd": f"./check {pid} thorough",
            "evidence_file": f"/verif/evidence/{pid}.json", "replay_cmd_template": f"./check {pid} --replay {{path}}", "engine": "govc",
            "level_claimed": {"category": level, "text": text, "design_ref": f"DESIGN.md §6 {pid}"},
            "level_note": ASSUME + note, "technique": tech})
        c = dict(c); c.setdefault("level", level); cfg[pid] = c
    else:
        na.append({"property_id": pid, "reason": NA_REASON.get(pid, "contracts designed (DESIGN §6) but not built yet — unclaimed")})
# hook commits: every commit that touches a guarded contract file (verif: commits and the driver's end-of-round snapshot)
hooks = subprocess.run(["git","-C","/repo","log","--format=%H","--","verif_contracts.go","ds/list/verif_contracts.go","ds/set/verif_contracts.go","ds/zset/verif_contracts.go","verif_scenarios.go"],capture_output=True,text=True).stdout.split()
m = {"version": 1, "setup_cmd": "./setup.sh",
 "hooks": {"guard": "verif", "enable": "-tags verif (comment-only contract files verif_contracts.go in the four packages plus verif_scenarios.go, client functions over the public API; read by govc, never compiled into the library)",
           "baseline_off_cmd": "cd /repo && GOFLAGS=-mod=mod GOPROXY=off GOSUMDB=off go test -vet=off -count=1 ./...",
           "source_commits": hooks, "add_only": True},
 "engines": [{"name": "govc", "path": "engine", "serves_properties": sorted(CLAIMS),
              "kind_free_text": "VC generator over go/ssa (naive form) of /repo's working tree + Gobra-style contracts in verif-tagged comment-only files; obligations discharged by z3 4.8.12 / z3 5.1.0 / cvc5 1.0.3"}],
 "checks": checks, "not_applicable": na,
 "notes": "Every check prints KNOWN-FINDING lines for listed genuine defects (known-findings.json) and exits 0 on the unchanged tree; UNDECIDED lines report contracts that no longer match the code."}
json.dump(m, open('/verif/MANIFEST.json','w'), indent=1)
json.dump(cfg, open('/verif/properties-config.json','w'), indent=1)
print("claimed:", sorted(CLAIMS))
